from props import KERNEL, HARNESS, TRANSLATOR, CORR

CONFIG = {
    "props_file": "props/C10.v",
    "coq_targets": ["props/C10.vo", "model/ConcCorr.vo"],
    "runner": "run_conc",          # harness/cmd/run_conc (+ cmd/run_conc/worker, built with -race by the runner)
    "gens": ["gen_conc"],          # harness/cmd/gen_conc -> coq/gen/ConcGen.v
    "level": "proof",
    "trusted_base": [
        KERNEL,
        TRANSLATOR + " (ConcGen.v: per function of schema_cache.go / schema_from_proto.go / reflect.go / codec.go the source-order sequence of shared-map touches, To reads/writes, sc.mu operations, verifhook points and calls into the cache)",
        CORR, HARNESS,
        "the forced-schedule scheduler (harness/cmd/run_conc/sched.go): goroutines park at the verifhook points of lib/j5schema (build tag verif); a goroutine blocked in sc.mu.Lock() is recognised by its runtime wait reason, not inferred from hooks",
        "modelled, not verified: sync.Mutex (mutual exclusion, first-come-first-served hand-off to queued goroutines while every other goroutine is parked), Go maps and pointers as atomic cells, protobuf-go descriptors",
        "not formalised: the Go memory model. Data-race freedom of the Go code is explored by the race detector runs (go build -race works offline here), never proved",
    ],
    "assumptions": [
        "model/Conc.v is the hand-written small-step model of SchemaCache.Schema / refTo and the placeholder mechanism; one model step = the code between two verifhook points; it is tied to the code by ConcGen.v (access sequences, lock discipline) and by forced schedules replayed on the real cache with traces and per-call results compared",
        "the type universe is a finite graph of message/enum types; the reserved name `unsupported` stands for a field whose type the reflector rejects (google.protobuf.Empty in the harness): such types, and every type reaching them, fail to reflect, alone and concurrently; calls are made on types, not on the marker (calls_ok); the two-level package/schema map is flattened to one map keyed by full name",
        "every shared-map operation is atomic in the model (no torn reads, no 'concurrent map writes' crash can be exhibited by it)",
    ],
    "mult_search": 3,
    "refuted": ["C10_unguarded_refuted", "C10_unguarded_refuted_nested", "C10_full_unguarded_refuted"],
    "partial": ["C10_memory_guarded_partial (data-race freedom proved over the model's access events with happens-before = program order + the sync.Mutex rule; the Go memory model is not formalised and the event/code correspondence rests on the translator tables and the race detector)"],
}

MANIFEST = {
    "text": "SchemaCache as a small-step shared-state machine (lookup / insert placeholder / refTo lookup-or-insert / nested build / set To / failing build and rollback of SchemaCache.registered / return, thread-local continuation stacks, FIFO mutex). For ALL type universes (cyclic, with or without types that fail to reflect), all call lists, any number of threads and all schedules under the guarded discipline: every completed call returns what it returns alone on a fresh cache, no deadlock, every fair schedule of an explicit number of rounds completes, a free lock means a fully linked cache holding only reflectable types, and the access-event trace is race free under happens-before. Without the lock the model refutes the property by two concrete 2-thread schedules (a caller sees another's placeholder with To == nil; a caller gets a schema with an unlinked nested reference); the fix (fix: commit 0c9f9ff, a mutex held for the whole Schema build) makes the code follow the guarded discipline, which a computed lemma over the regenerated access tables checks on every run. Forced schedules (the witnesses and random ones) are replayed on the real cache/codec/Global codec and traces + per-call results compared with the model; real goroutines run under the race detector in crash-isolated workers.",
    "note": "Partial: the Go memory model is not formalised. Race freedom (no conflicting accesses unordered by program order + the sync.Mutex synchronisation rule; every To field written once, before any caller reads it) is proved for the model's access events, for all schedules; that these are the Go code's accesses rests on the translator's token tables and race-detector exploration; the model's map operations are atomic. Trusted: Coq kernel, translator, harness scheduler; sync.Mutex modelled (FIFO hand-off).",
    "technique": "Rocq/Coq proof (invariants of a shared-state machine for all schedules/threads/type graphs) + regenerated lock-discipline tables + forced-schedule differential correspondence in Coq + race-detector oracle",
}

from props import KERNEL, HARNESS, TRANSLATOR, CORR

CONFIG = {
    "props_file": "props/C15.v",
    "coq_targets": ["props/C15.vo", "model/ExportCorr.vo"],
    "runner": "run_schb",
    "gens": ["gen_schb"],
    "level": "proof",
    "trusted_base": [
        KERNEL, TRANSLATOR + " (ReflectGen.v: keyed composite literals of ToJ5Field / ToJ5Root / ToJ5Object / ToJ5EnumValue / ToJ5Proto and of schemaFromDesc / objectSchemaFromDesc / oneofSchemaFromDesc / enumSchemaFromDesc / objectPropertyFromDesc, intKinds / floatKinds; the model computes with these tables)", CORR, HARNESS,
        "exported-schema dump (harness/descgen/dump.go RootTerm): schema_j5pb.RootSchema -> Coq root term, list-rule / ext / entity payloads as opaque tokens",
        "modelled, not verified: proto.Equal, protodesc.NewFiles, structure.APIFromImage's package bookkeeping (getSchemaSet / sub-packages) outside addSchemas",
    ],
    "assumptions": [
        "model/Export.v is the hand-written model of ToJ5Root/ToJ5Field and PackageSetFromSourceAPI; which members are copied is read from the Go source on every run; tied to the code by the correspondence stream (first export = model export of the model's reflection; model import of the observed export re-exports to the observed second export)",
        "inline (non-ref) object / oneof / enum field schemas are outside the model: the export of reflected schemas never produces them",
    ],
    "mult_search": 3,
    "refuted": [],
    "partial": ["C15_roundtrip_partial: distinct names / importable formats / no dangling reference of a reflected set are hypotheses (checked on every reflected set of the stream, not yet derived from reflect D fs = Ok S)"],
}

MANIFEST = {
    "text": "Theorems over a table-driven Gallina model of the schema export (ToJ5Root / ToJ5Field) and import (PackageSetFromSourceAPI): field-by-field and root-by-root inverse lemmas (every rule, list rule, ext, flatten flag, entity marker, any-membership, enum prefix / option info / info fields), lifted over the reference environment (every schema found again under its name exporting to the same form, nothing added, every reference resolved) and independence of the map iteration order of buildSchemas.",
    "note": "Partial: the lift to sets assumes distinct names, importable formats and closedness of the reflected set (checked per case, not proved from the reader model). Trusted: Coq kernel; translator; harness.",
    "technique": "Rocq/Coq proof over a model that computes with copy tables regenerated from the Go composite literals + in-Coq differential correspondence (export, re-import, second export) in crash-isolated workers",
}

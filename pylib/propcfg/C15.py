from props import KERNEL, HARNESS, TRANSLATOR, CORR

CONFIG = {
    "props_file": "props/C15.v",
    "coq_targets": ["props/C15.vo", "model/ExportCorr.vo"],
    "runner": "run_schb",
    "gens": ["gen_schb"],
    "level": "proof",
    "trusted_base": [
        KERNEL, TRANSLATOR + " (ReflectGen.v: keyed composite literals of ToJ5Field / ToJ5Root / ToJ5Object / ToJ5EnumValue / ToJ5Proto and of schemaFromDesc / objectSchemaFromDesc / oneofSchemaFromDesc / enumSchemaFromDesc / objectPropertyFromDesc, intKinds / floatKinds; the model computes with these tables)", CORR, HARNESS,
        "exported-schema dump (harness/descgen/dump.go RootTerm): schema_j5pb.RootSchema -> Coq root term, list-rule / ext / entity payloads as opaque tokens",
        "modelled, not verified: proto.Equal, protodesc.NewFiles, structure.APIFromImage's package bookkeeping (getSchemaSet / sub-packages) outside addSchemas",
    ],
    "assumptions": [
        "model/Export.v is the hand-written model of ToJ5Root/ToJ5Field and PackageSetFromSourceAPI; which members are copied is read from the Go source on every run; tied to the code by the correspondence stream (first export = model export of the model's reflection; model import of the observed export re-exports to the observed second export)",
        "inline (non-ref) object / oneof / enum field schemas are outside the model: the export of reflected schemas never produces them",
    ],
    "mult_search": 3,
    "refuted": [],
    "partial": ["C15_reflected_roundtrip holds under the hypothesis wf_keys (enums non-empty; split names of messages / enums / real oneofs pairwise distinct: a hypothesis, not a guarantee of a linked set; nothing is assumed about JSON or property names); C15_full_statement (a Definition) is neither proved nor refuted without it", "export_set models addSchemas only: APIFromImage's package bookkeeping (splitPackageParts errors, listed vs indirect packages, sub-packages) is outside the Coq model and covered by the correspondence stream only", "the export form is the schema type with scalar Kind / WKT name erased; the theorems' content is the copy tables (member names, not value expressions), the refTo environment of buildSchemas and the reader invariants"],
}

MANIFEST = {
    "text": "Theorems over a table-driven Gallina model of the schema export (ToJ5Root / ToJ5Field) and import (PackageSetFromSourceAPI): field-by-field and root-by-root inverse lemmas (every rule, list rule, ext, flatten flag, entity marker, any-membership, enum prefix / option info / info fields), lifted over the reference environment (every schema found again under its name exporting to the same form, nothing added, every reference resolved) and independence of the map iteration order of buildSchemas.",
    "note": "Proved under the hypothesis wf_keys (enums non-empty, split names of messages / enums / real oneofs distinct: the latter is not guaranteed by a linked set) for every successful reflection (model of SchemaSetFromFiles + addSchemas, not of APIFromImage's package routing): export, re-import, re-export gives exactly the same form with every reference resolved (C15_reflected_roundtrip, composing the reader model's invariant with the table-driven export/import model); field-by-field and root-by-root inverse lemmas; independence of the buildSchemas iteration order. Not claimed without wf_keys (split-name collisions). Inline field schemas are outside the model. Trusted: Coq kernel; translator (copy tables); harness.",
    "technique": "Rocq/Coq proof over a model that computes with copy tables regenerated from the Go composite literals + in-Coq differential correspondence (export, re-import, second export) in crash-isolated workers",
}

from props import KERNEL, HARNESS, TRANSLATOR, CORR

CONFIG = {
    "props_file": "props/C15.v",
    "coq_targets": ["props/C15.vo", "model/ExportCorr.vo"],
    "runner": "run_schb",
    "gens": ["gen_schb"],
    "level": "proof",
    "trusted_base": [
        KERNEL, TRANSLATOR + " (ReflectGen.v: keyed composite literals of ToJ5Field / ToJ5Root / ToJ5Object / ToJ5EnumValue / ToJ5Proto and of schemaFromDesc / objectSchemaFromDesc / oneofSchemaFromDesc / enumSchemaFromDesc / objectPropertyFromDesc, intKinds / floatKinds; the model computes with these tables)", CORR, HARNESS,
        "exported-API dump (harness/descgen/dump.go APITerm / RootTerm): source_j5pb.API -> Coq xapi term (packages, indirect flags, sub-packages);: schema_j5pb.RootSchema -> Coq xroot term (the source form, coq/model/ExportForm.v), list-rule / ext / entity payloads as opaque tokens",
        "services dump (harness/descgen/services.go): ServiceDescriptor -> Coq svcd term (package, name, (j5.ext.v1.service).type, per method: names of input / output message, input field names, google.api.http pattern, (j5.ext.v1.method).state_query flags)",
        "modelled, not verified: proto.Equal, protodesc.NewFiles. addStructure (services / topics) is modelled as far as it decides the outcome of APIFromImage and the sub-packages of the API (package split, listed-package test, getSubPackage, dispatch on the service name, every error of buildService / buildMethod / buildTopic / buildTopicMethod); the Service / Topic values it builds are not modelled (PackageSetFromSourceAPI never reads them: outside the schema round trip)",
    ],
    "assumptions": [
        "model/Export.v is the hand-written model of ToJ5Root/ToJ5Field and PackageSetFromSourceAPI; which members are copied is read from the Go source on every run; tied to the code by the correspondence stream (first export = model export of the model's reflection; model import of the observed export re-exports to the observed second export)",
        "inline (non-ref) object / oneof / enum field schemas are representable in the source form (XInline) with their content not modelled: the export of reflected schemas never produces them and the import cannot link them (C15_inline_not_importable; the Go failure is at assertRefsLink, the model reports it at the field)",
    ],
    "mult_search": 3,
    "refuted": [],
    "partial": ["C15_reflected_roundtrip holds under the hypothesis wf_keys (enums non-empty; split names of messages / enums / real oneofs pairwise distinct: a hypothesis, not a guarantee of a linked set; nothing is assumed about JSON or property names); C15_full_statement (a Definition) is neither proved nor refuted without it", "the export form is a Gallina type of its own (ExportForm.v: xroot / xfield / xprop / xschema, modelled on schema.proto) and export / import are functions between the two types; they are still table-driven member-by-member copies, so the theorems' content is the copy tables (member names, with the source text of each value tied by C15_copy_lines_read_the_member_the_model_copies), the recomputation of Kind / WKT name by the import, the refTo environment of buildSchemas and the reader invariants"],
}

MANIFEST = {
    "text": "Theorems over a table-driven Gallina model of the schema export (ToJ5Root / ToJ5Field) and import (PackageSetFromSourceAPI): field-by-field and root-by-root inverse lemmas (every rule, list rule, ext, flatten flag, entity marker, any-membership, enum prefix / option info / info fields), lifted over the reference environment (every schema found again under its name exporting to the same form, nothing added, every reference resolved) and independence of the map iteration order of buildSchemas.",
    "note": "Proved under the hypothesis wf_keys (enums non-empty, split names of messages / enums / real oneofs distinct: the latter is not guaranteed by a linked set) for every successful reflection (model of APIFromImage: addStructure over the services and topics of the image, selector, SchemaSetFromFiles, addSchemas with getSchemaSet / getPackage / getSubPackage / splitPackageParts; PackageSetFromSourceAPI with its package naming): export, re-import, re-export gives exactly the same form with every reference resolved (C15_api_roundtrip through the package structure of the API, C15_reflected_roundtrip over the flat list; splitting a package name and re-joining it is the identity, filing into packages / sub-packages keeps every entry exactly once; composing the reader model's invariant with the table-driven export/import model); field-by-field and root-by-root inverse lemmas; independence of the buildSchemas iteration order; addStructure files no schema (C15_structure_files_no_schema), so the round trip holds whatever services and topics the image has. Not claimed without wf_keys (split-name collisions). The source form is a separate term type (export : root -> xroot, import : xroot -> root); inline field schemas are representable and proved not importable. Trusted: Coq kernel; translator (copy tables); harness.",
    "technique": "Rocq/Coq proof over a model that computes with copy tables regenerated from the Go composite literals + in-Coq differential correspondence (export, re-import, second export) in crash-isolated workers",
}

from props import KERNEL, HARNESS, TRANSLATOR, CORR

CONFIG = {
    "props_file": "props/C14.v",
    "coq_targets": ["props/C14.vo", "model/CmpbOrderCorr.vo"],
    "runner": "run_cmpb",          # harness/cmd/run_cmpb
    "gens": ["gen_cmpb"],          # harness/cmd/gen_cmpb -> coq/gen/{SetExtGen,MapRangeGen,PanicGen}.v
    "level": "proof",
    "trusted_base": [
        KERNEL,
        TRANSLATOR + " (MapRangeGen.v by go/types: every `range` over a map, maps.Keys/Values, protoreflect Message.Range / Map.Range and proto.RangeExtensions in j5convert, protobuild, protoprint, optionreflect, sourcewalk; SetExtGen.v for the extension indexes and the options message each extension is set on)",
        CORR, HARNESS,
        "modelled, not verified: Go's sort.Strings / sort.Sort / slices.SortFunc are represented by 'some sorted permutation of the input' (the theorems hold for every such result, any_sort_is_isort); protobuf-go's Range over extension fields and map entries is an arbitrary permutation; the conversion and link of one file are a parameter of the loading skeleton (a function of the file, the package's exports and its direct dependencies' exports)",
        "not modelled: goroutine-level nondeterminism (none on this path), the layout decisions of the printer beyond ordering (C05), protocompile internals",
    ],
    "assumptions": [
        "model/CmpbOrder.v is the hand-written order-parameterised model of ensureImport, includeIO, loadPackage/resolveDependencies/CompilePackage on a PackageSet, OptionsFor, optionsFor and walkOptionMap; the list of unordered iterations it accounts for equals the regenerated MapRangeGen.v (order_sites_agree), each classified as modelled (with its irrelevance lemma), insensitive (loop body commutes or runs at most once) or not observed (lint reports, error texts, a dead log line)",
        "valid bundle (the property's quantifier): within a package no type is exported twice and no file name repeats",
        "the order parameters are arbitrary permutations of what they are given (every listing order, every map iteration order)",
        "totality (C14_compile_total_deterministic) assumes what a valid bundle provides: every dependency is in the bundle, the dependency relation is acyclic (a rank function), and the model's fuel exceeds the rank; the Go code has no fuel",
    ],
    "mult_search": 3,
    "refuted": [],
    "partial": [],
}

MANIFEST = {
    "text": "Theorems over an order-parameterised Gallina model of the compile and print path, for all permutations of every order parameter: the files CompilePackage returns (names, order, content) do not depend on the file listing order, on the iteration order of the dependency map or of the package's file map, on fuel, or on what was compiled earlier on the PackageSet (cache transparency by an invariant on the cache); a generated file's import list is a function of the set of files passed to ensureImport; the exports map is independent of iteration order; printed option order is independent of protobuf's Range order (total order: source line, extension index, full name - the repaired finding 28; the index-only order used before is shown order-dependent by a witness); field options (re-sorted by name) and map-valued options (sorted by key since the fix) are independent of Range order. The list of unordered iterations in the Go code is regenerated with go/types on every run and must equal the model's classified site list. The tie compiles and prints each generated multi-file, multi-package bundle 8x (quick) / 64x (thorough) in-process with shuffled listings, fresh vs reused sets and shuffled call orders, comparing deterministic-marshal bytes and printed text, prints every resulting file, a hand-built descriptor with index-tied extensions and a bundle with a hand-written .proto source 56x / 160x, and checks observed import lists, file orders, printed option orders and map-entry orders against the model.",
    "note": "Proved for the order skeleton; conversion and link of a single file are parameters (functions). Trusted: Coq kernel; the go/types translator; the harness; Go's sort functions as 'a sorted permutation'. All C14 theorems are closed under the global context (no axioms).",
    "technique": "Rocq/Coq proof (permutation invariance via uniqueness of strictly sorted lists and extensionality of sorted association lists; cache invariant by induction on fuel) + regenerated map-iteration site list with a computed agreement lemma + repeated shuffled in-process compilation with byte comparison + in-Coq correspondence of observed orders",
}

from props import KERNEL, HARNESS, TRANSLATOR, CORR

CONFIG = {
    "props_file": "props/C14.v",
    "coq_targets": ["props/C14.vo", "model/CmpbOrderCorr.vo"],
    "runner": "run_cmpb",          # harness/cmd/run_cmpb
    "gens": ["gen_cmpb"],          # harness/cmd/gen_cmpb -> coq/gen/{SetExtGen,MapRangeGen,PanicGen}.v
    "level": "proof",
    "trusted_base": [
        KERNEL,
        TRANSLATOR + " (MapRangeGen.v by go/types: `range` over a map, maps.Keys/Values, protoreflect Message.Range / Map.Range and proto.RangeExtensions in FIVE packages: j5convert, protobuild, protoprint, optionreflect, sourcewalk. Not scanned: j5parse, internal/bcl/**, lib/j5reflect, lib/j5schema; not detected: reflect MapKeys/MapRange, sync.Map, goroutines, time/rand, package-level mutable state. SetExtGen.v for the extension indexes and the options message each extension is set on)",
        CORR, HARNESS,
        "ASSUMED by typing: the conversion + link + print of ONE file is an opaque function `convert : env -> srcfile -> D` of the file, the package's exports and its direct dependencies' exports; its own determinism (sourcewalk, j5convert builders, protocompile link, the printer's layout and element order) is not proved here",
        "modelled, not verified: Go's sort.Strings / sort.Sort / slices.SortFunc / sort.Slice are 'some sorted permutation of the input' (theorems hold for every such result when keys are distinct: any_sort_is_isort); Go maps are sorted association lists; protobuf-go's Range over extension fields and map entries is an arbitrary permutation",
    ],
    "assumptions": [
        "model/CmpbOrder.v is the hand-written order-parameterised model of ensureImport, includeIO, loadPackage/resolveDependencies and the file-name sort of CompilePackage on a PackageSet (Packages cache), OptionsFor, optionsFor and walkOptionMap",
        "valid bundle (the property's quantifier): within a package no type is exported twice and no source file name repeats; dependencies are present and acyclic (a rank function) for the total form; the model's fuel exceeds the rank (the Go code has no fuel)",
        "the order parameters are arbitrary permutations of what they are given (every file listing order, every map iteration order); the package listing order is not a parameter (ListPackages only feeds a prefix list and a set)",
        "one source file yields one output in the model; in Go a .j5s yields up to three descriptors (main, service, topic) keyed by name",
    ],
    "mult_search": 3,
    "refuted": [],
    "partial": [
        "C14_full is the property over the order SKELETON only: determinism of converting, linking and printing a single file is assumed (`convert` opaque); the link phase of CompilePackage (resolveAll, per-call Symbols, the cross-call SearchResult.Linked cache) is not modelled; the printer's element order (sort.Sort(elements)) and import print order have no theorem",
        "of the 12 unordered iterations found by the translator, 5 are order parameters with a permutation-invariance theorem, 3 are classified 'insensitive' and 4 'not observed' by a review note (prose), not by a lemma; C14_order_sites_agree only checks that the classified list equals the generated one as a set",
        "process-level state (package-level caches) is outside the model: only the peer-process oracle looks for it",
        "the correspondence checks observed ORDERS (Dependency list, output file order, printed option order, map-entry order) against ensure_all / sort_names / options_for / field_options / map_entries; the loading skeleton behind C14_compile_total_deterministic (load, compile_package, include_io) is not compared with the Go PackageSet",
    ],
}

MANIFEST = {
    "text": "PARTIAL. Proved, over an order-parameterised Gallina skeleton of package loading and of the ordering steps of printing, for all permutations of every order parameter: on a valid bundle with acyclic present dependencies, CompilePackage's file list (names and order; contents as returned by an opaque per-file function `convert`) does not depend on the file listing order, on the iteration order of the dependency map or of the package's file map, on fuel, or on what was loaded earlier into the PackageSet's Packages cache (invariant on the cache, induction on fuel; total form under a rank on dependencies); a generated file's import list is a function of the set of files passed to ensureImport; the exports map is independent of iteration order; the order of printed options is independent of protobuf's Range order (total order: source line, extension index, full name - the repaired finding 28; the index-only order used before is shown order-dependent by a witness); field options (re-sorted by name) and map-valued options (sorted by key since the fix) likewise. ASSUMED, not proved: that converting, linking and printing one file is a function (it is a parameter of the skeleton). NOT modelled: the link phase and its cross-call cache, the printer's element order, process-level state. The list of unordered iterations in five packages is regenerated with go/types on every run and must equal the model's classified site list as a set; 7 of the 12 classifications are review notes, not lemmas. The tie compiles and prints each generated multi-file, multi-package bundle 8x (quick) / 64x (thorough) in-process with shuffled listings, fresh vs reused sets and shuffled call orders, comparing deterministic-marshal bytes and printed text; compares against a fresh peer process that compiles with reversed listings first; prints every resulting file, a hand-built descriptor with index-tied extensions and a bundle with a hand-written .proto source 56x / 160x; and checks observed import lists, file orders, printed option orders and map-entry orders against the model.",
    "note": "Proved for the order skeleton; the per-file compiler/printer is an assumed-deterministic parameter and the link cache is unmodelled (see partial), so the headline determinism of descriptors and printed text rests on the repeated-compilation oracle for those parts. Trusted: Coq kernel; the go/types translator (five packages, five syntactic kinds); the harness; Go's sort functions as 'a sorted permutation'. All C14 theorems are closed under the global context (no axioms).",
    "technique": "Rocq/Coq proof (permutation invariance via uniqueness of strictly sorted lists and extensionality of sorted association lists; cache invariant and totality by induction on fuel) + regenerated map-iteration site list with a computed set-agreement lemma + repeated shuffled in-process compilation, peer-process comparison and repeated printing with byte comparison (exploration) + in-Coq correspondence of observed orders",
}

from props import KERNEL, HARNESS, TRANSLATOR, CORR

CONFIG = {
    "props_file": "props/C20.v",
    "coq_targets": ["props/C20.vo", "model/Id62Corr.vo"],
    "runner": "run_id62",          # harness/cmd/run_id62
    "gens": ["gen_id62"],          # harness/cmd/gen_id62 -> coq/gen/Id62Gen.v
    "level": "proof",
    "trusted_base": [
        KERNEL, TRANSLATOR + " (Id62Gen.v: PatternString literal, references from fields.go and schema_from_proto.go)", CORR, HARNESS,
        "modelled, not verified: math/big SetBytes/Text(62)/SetString(62)/Bytes, fmt %022s padding, regexp for the one pattern form ^[ranges]{n}$, crypto/sha1 (lib/Sha1.v, checked against the FIPS vector and against crypto/sha1 by correspondence)",
    ],
    "assumptions": [
        "model/Id62.v is the hand-written model of lib/id62/uuid62.go; it is tied to the code by the correspondence stream of this run and by the regenerated pattern string",
        "identifiers are byte lists of length 16 with every byte < 256 (wf_id), strings are byte lists",
    ],
    "mult_search": 4,
    "refuted": [],
    "partial": [],
}

MANIFEST = {
    "text": "Theorems over a Gallina model of base62String/parseBase62/Pattern/NewHash, for all 2^128 identifiers and all strings: render is total and yields 22 characters matching the pattern string read from the Go source; parse(render b) = b, hence injectivity; parse never panics, returns exactly the denoted magnitude, and rejects magnitudes >= 2^128; NewHash depends only on the concatenation of its arguments. The model is tied to the code by re-reading PatternString on every run and by evaluating model and implementation on the same identifiers/strings, on histories of NewHash calls over tuples that collide under naive joining (so a memo keyed by a non-injective join shows up as history dependence), and on the validation patterns the real compiler emits for key:id62 fields in every qualifier form (plain, required, optional, array, map, list rules), each of which must equal the regenerated pattern string.",
    "note": "Trusted: Coq kernel; the translator; the correspondence harness; math/big, fmt padding, regexp and crypto/sha1 are modelled, not verified. All C20 theorems are closed under the global context (no axioms).",
    "technique": "Rocq/Coq proof (radix round-trip by induction) + regenerated pattern table + in-Coq differential correspondence",
}

from props import KERNEL, HARNESS, TRANSLATOR, CORR

CONFIG = {
    "props_file": "props/C20.v",
    "coq_targets": ["props/C20.vo", "model/Id62Corr.vo"],
    "runner": "run_id62",          # harness/cmd/run_id62
    "gens": ["gen_id62"],          # harness/cmd/gen_id62 -> coq/gen/Id62Gen.v
    "level": "proof",
    "trusted_base": [
        KERNEL, TRANSLATOR + " (Id62Gen.v, all of it read by a lemma: the PatternString literal; the number of references to id62.PatternString in fields.go / schema_from_proto.go and of literal copies of its text (C20_pattern_single_source); the reader's wellKnownStringPatterns table with keys and values resolved (C20_reader_recognises_exactly_the_pattern); the package-level variables of lib/id62, those NewHash or a package function it calls touches, and the calls it makes (C20_new_hash_stateless_in_code) - a go/ast reading of one file, no alias analysis: state reached through a method of another package's object would not be seen)", CORR, HARNESS,
        "purity of NewHash is BY CONSTRUCTION in the model (a Gallina function cannot depend on earlier calls; C20_new_hash_history_independent threads an explicit package state through a call sequence only to say so); that the Go function has no such dependence rests on C20_new_hash_stateless_in_code (syntactic: no package-level variable, no goroutine, only calls on the digest it creates) and on the hash-history stream (sequences of colliding tuples, every call compared with SHA-1 of the concatenation)",
        "modelled, not verified: math/big SetBytes/Text(62)/SetString(62)/Bytes, fmt %022s padding, regexp for the one pattern form ^[ranges]{n}$, crypto/sha1 (lib/Sha1.v, checked against the FIPS vector and against crypto/sha1 by correspondence)",
    ],
    "assumptions": [
        "model/Id62.v is the hand-written model of lib/id62/uuid62.go; it is tied to the code by the correspondence stream of this run and by the regenerated pattern string",
        "identifiers are byte lists of length 16 with every byte < 256 (wf_id), strings are byte lists",
        "Parse is not a validator and the property does not ask it to be one: it accepts an optional sign, any number of base62 digits (leading zeros, fewer or more than 22 characters) of magnitude < 2^128 and drops the sign (C20_parse_accepted_language, C20_parse_is_not_a_validator: Parse(\"-1\") = Parse(\"+1\") = Parse(\"1\")); the property text constrains Parse on renderings (round trip), on all strings (no panic) and on values that do not fit (rejected, with 'value' = the magnitude big.Int.Bytes returns) - all proved; README/docs make no claim about Parse; on strings of the published shape, which is what a key:id62 validation rule admits, Parse is the exact inverse of String (C20_parse_inverse_on_pattern). Judged not a defect of C20; noted for the maintainers (a negative number silently becomes its absolute value)",
        "New() / NewString() (uuid.NewV7 through github.com/google/uuid) are outside the statement and not modelled: any 16 bytes render and round-trip (C20_full quantifies over all of them); the identifiers the package mints are checked by the oracle stream `new` (22 characters of the pattern, parse back, distinct) and their renderings go to Coq as CRender cases; UUIDString / Base64String not modelled",
    ],
    "mult_search": 4,
    "refuted": [],
    "partial": [],
}

MANIFEST = {
    "text": "C20_full (one conjunction, closed): theorems over a Gallina model of base62String/parseBase62/Pattern/NewHash, for all 2^128 identifiers and all strings: render is total and yields 22 characters matching the pattern string read from the Go source; parse(render b) = b, hence injectivity; parse never panics, returns exactly the denoted magnitude, and rejects magnitudes >= 2^128; NewHash depends only on the concatenation of its arguments and, as a step of a process with the package state threaded through, not on earlier calls (by construction of the model; the Go function is shown to touch no package-level variable by a regenerated table). Also: the exact language Parse accepts (it is not a validator: signs, any length, leading zeros), Parse as exact inverse of String on strings of the published shape, compiler and reader both take the pattern from id62.PatternString with no literal copy, and the reader's regenerated table maps exactly the published pattern to format id62 (its model is compared with the real reader on every compiled key:id62 field). The model is tied to the code by re-reading PatternString on every run and by evaluating model and implementation on the same identifiers/strings, on histories of NewHash calls over tuples that collide under naive joining (so a memo keyed by a non-injective join shows up as history dependence), and on the validation patterns the real compiler emits for key:id62 fields in every qualifier form (plain, required, optional, array, map, list rules), each of which must equal the regenerated pattern string.",
    "note": "Trusted: Coq kernel; the translator; the correspondence harness; math/big, fmt padding, regexp and crypto/sha1 are modelled, not verified. All C20 theorems are closed under the global context (no axioms).",
    "technique": "Rocq/Coq proof (radix round-trip by induction) + regenerated pattern table + in-Coq differential correspondence",
}

from props import KERNEL, HARNESS, TRANSLATOR, CORR

CONFIG = {
    "props_file": "props/C18.v",
    "coq_targets": ["props/C18.vo", "model/ReflectCorr.vo"],
    "runner": "run_schb",
    "gens": ["gen_schb"],
    "level": "proof",
    "trusted_base": [
        KERNEL, TRANSLATOR + " (ReflectGen.v: case arms of buildSchema / buildScalarType / wktSchema, type-switch arms of newFieldFactory / newMessageFieldFactory)", CORR, HARNESS,
        "abstract descriptor dump (harness/descgen/dump.go): protoreflect descriptors and option extension values -> Coq desc term; float32 bounds widened to float64 bits, list-rule / entity-ref payloads as opaque tokens (fnv of the deterministic encoding), descriptions computed with a copy of buildComment, strcase.ToLowerCamel of oneof names supplied as data",
        "modelled, not verified: protodesc.NewFiles, protoreflect accessors, strcase.ToLowerCamel (supplied as data), the codec below newPropSet / buildProperty (encoder and decoder bodies belong to C01/C06/C08). The theorems carry explicit hypotheses (wf_total / wf_keys / json_ok / wf_paths) that a linked descriptor set does NOT all guarantee: split names of messages / enums / real oneofs distinct (violated by `message Bar { enum Kind }` + `message Bar_Kind`), JSON names of fields AND exposed oneofs distinct (protoc checks fields only: violated by `oneof foo_bar {expose}` + field `fooBar`); both violations are proved refutations and known findings",
    ],
    "assumptions": [
        "model/Reflect.v is the hand-written model of schema_from_proto.go, schema_cache.go, ClientProperties and newPropSet/buildProperty; tied to the code by the correspondence stream of this run (outcome class, whole reflected schema set, client-property flags, codec usability class per reflected type, cache-history classes) and by the regenerated switch-arm tables",
        "descriptor sets are linked through FileDescriptorSet -> protodesc.NewFiles, so option extension values are the generated Go types (the entry point structure.APIFromImage uses)",
    ],
    "mult_search": 3,
    "refuted": [
        "C18_split_name_collision_refuted: ~ C18_full_statement (enum and message with the same split name: Panic in buildEnumFieldSchema; known finding)",
        "C18_struct_codec_refuted: wf_total set that reflects consistently but codec_classes = (0,1) (google.protobuf.Struct; known finding)",
        "C18_flatten_names_refuted: client properties with a duplicate name after flattening (known finding)",
        "C18_exposed_oneof_name_clash_refuted: split names, field JSON names and field numbers all distinct, yet object M has two properties fooBar (exposed oneof foo_bar + field fooBar; known finding, found by the audit)",
    ],
    "partial": [
        "C18_reflect_total / C18_cache_schema_total: totality for all descriptor sets satisfying wf_total (enums non-empty; enum split names apart from message / oneof split names)",
        "C18_reflect_ok_guarantees (wf_keys; names under json_ok) and C18_reflect_consistent (wf_paths = wf_keys + json_ok + distinct field numbers per message): distinct keys, no placeholder, known scalar formats, closed references, every proto field path resolving to a field of the matching kind are theorems for every successful reflection; uniqueness of property names is proved only RELATIVE to the hypothesis that the JSON names of a message's fields and exposed oneofs are distinct (the reader introduces no duplicate), which real inputs can violate; C18_flatten_graph_acyclic (no hypothesis) and C18_client_properties_terminate (wf_keys): the flatten graph of every reflected set is acyclic and ClientProperties of every entry returns within fuel |S|+1 without a failed type assertion; C18_prop_sets_build (wf_keys + distinct field numbers): newPropSet succeeds on every reflected message type (empty message encodable / decodable); C18_codec_usable_on_supported: codec_classes = (0,0) for every message whose client properties are of kinds the codec has a factory for (supported_b excludes exactly the known findings: any-typed / container items of arrays and maps, Struct); C18_full_on_wf_paths combines all clauses under wf_paths. The model of the codec stops at factory construction (newPropSet / buildProperty); encoding and decoding of values belong to C01/C06/C08 and are exercised here by the harness only",
    ],
}

MANIFEST = {
    "text": "Theorems over a Gallina model of the proto-to-J5 schema reader (SchemaSetFromFiles / SchemaCache.Schema with placeholder recursion, all of buildScalarType / buildFromStringProto / wktSchema / buildEnum / messageProperties incl. exposed oneofs, checkFlattenCycle, ClientProperties, newPropSet / buildProperty), for all abstract proto3 descriptor sets with arbitrary annotation trees.",
    "note": "Proved for all descriptor sets with non-empty enums and no enum/message split-name collision: the reader (incl. SchemaCache over any call history) never panics and never exhausts fuel |messages|+1. Also proved under wf_keys (a hypothesis, not a guarantee of a linked set: split names distinct): a successful reflection has distinct keys, no unlinked placeholder, known scalar formats, closed references; and under json_ok in addition (JSON names of fields and exposed oneofs distinct, again not guaranteed) no duplicate property name is introduced by the reader. Also proved (wf_paths): every recorded proto field path resolves to a field of the matching kind (C18_reflect_consistent). Also proved: the flatten graph of every successfully reflected set is acyclic (no hypothesis) and, under wf_keys, ObjectSchema.ClientProperties returns for every entry (no unbounded recursion, no failed type assertion). Also proved (wf_keys + distinct field numbers): the codec's property set builds for every reflected message type. Also proved: every property of a message within the codec's supported kinds builds (C18_codec_usable_on_supported), and C18_full_on_wf_paths states all clauses together under wf_paths. Partial (not a defect of the proof but of the property): outside wf_paths and outside the supported kinds the clauses fail; these are the refutations and known findings. Codec behaviour below factory construction is checked per case against the real code (model predicate), not proved for all inputs; four refutation witnesses are proved (split-name collision: panic; Struct: codec cannot build; flatten name clash; exposed-oneof / field JSON name clash) and listed as known findings. Entry point with dynamicpb extension values is outside the property (observation only). Trusted: Coq kernel; translator; harness and descriptor dump.",
    "technique": "Rocq/Coq proof (invariant over the placeholder recursion) + regenerated switch-arm tables + in-Coq differential correspondence on generated descriptor sets in crash-isolated workers",
}

from props import KERNEL, HARNESS, TRANSLATOR, CORR

CONFIG = {
    "props_file": "props/C18.v",
    "coq_targets": ["props/C18.vo", "model/ReflectCorr.vo"],
    "runner": "run_schb",
    "gens": ["gen_schb"],
    "level": "proof",
    "trusted_base": [
        KERNEL, TRANSLATOR + " (ReflectGen.v: case arms of buildSchema / buildScalarType / wktSchema, type-switch arms of newFieldFactory / newMessageFieldFactory)", CORR, HARNESS,
        "abstract descriptor dump (harness/descgen/dump.go): protoreflect descriptors and option extension values -> Coq desc term; float32 bounds widened to float64 bits, list-rule / entity-ref payloads as opaque tokens (fnv of the deterministic encoding), descriptions computed with a copy of buildComment, strcase.ToLowerCamel of oneof names supplied as data",
        "modelled, not verified: protodesc.NewFiles (what a linked set guarantees is the hypothesis wf_desc), protoreflect accessors, the codec below newPropSet / buildProperty (encoder and decoder bodies belong to C01/C06/C08)",
    ],
    "assumptions": [
        "model/Reflect.v is the hand-written model of schema_from_proto.go, schema_cache.go, ClientProperties and newPropSet/buildProperty; tied to the code by the correspondence stream of this run (outcome class, whole reflected schema set, client-property flags, codec usability class per reflected type, cache-history classes) and by the regenerated switch-arm tables",
        "descriptor sets are linked through FileDescriptorSet -> protodesc.NewFiles, so option extension values are the generated Go types (the entry point structure.APIFromImage uses)",
    ],
    "mult_search": 3,
    "refuted": [],
    "partial": [],
}

MANIFEST = {
    "text": "Theorems over a Gallina model of the proto-to-J5 schema reader (SchemaSetFromFiles / SchemaCache.Schema with placeholder recursion, all of buildScalarType / buildFromStringProto / wktSchema / buildEnum / messageProperties incl. exposed oneofs, checkFlattenCycle, ClientProperties, newPropSet / buildProperty), for all abstract proto3 descriptor sets with arbitrary annotation trees.",
    "note": "Trusted: Coq kernel; translator; correspondence harness and descriptor dump. See level_note in evidence.",
    "technique": "Rocq/Coq proof (invariant over the placeholder recursion) + regenerated switch-arm tables + in-Coq differential correspondence on generated descriptor sets in crash-isolated workers",
}

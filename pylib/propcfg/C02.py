from props import KERNEL, HARNESS, TRANSLATOR, CORR

CONFIG = {
    "props_file": "props/C02.v",
    "coq_targets": ["props/C02.vo", "model/J5sCorr.vo"],
    "runner": "run_cmpa",
    "gens": ["gen_cmpa"],
    "level": "proof",
    "trusted_base": [
        KERNEL, TRANSLATOR + " (ImportsGen.v: imports.go constants and implicitImports; fields.go buildField/buildProperty arms: proto type, label, ensureImport constants, type-name literals per field type)", CORR, HARNESS,
        "modelled, not verified: iancoleman/strcase (coq/lib/Strcase.v, builder ent, own correspondence stream), path.Join/Clean, protocompile's linker (the model resolves type names the way the linker leaves them: absolute names; symbol-collision checks are outside the model), the BCL front end (text -> SourceFile: tied only through the generated texts, in every surface form the printer knows)",
    ],
    "assumptions": [
        "model/J5s{Ast,Walk,Convert}.v is the hand-written model of sourcewalk + j5convert + the export/resolve part of protobuild; tied to the code by the correspondence stream of this run (whole descriptors compared) and the regenerated tables",
        "entities, validation/list rules, ext options and descriptions are outside the model (other properties); names are ASCII identifiers",
    ],
    "mult_search": 3,
    "refuted": [],
    "partial": [],
}

MANIFEST = {
    "text": "Theorems over a Gallina model of sourcewalk + j5convert + the export/import resolution of protobuild + protocompile's relative type-name resolution, for every name-conversion function and every declaration at every nesting depth (mutual induction on the syntax): (1) contract of properties: fields exactly the declared ones (name, JSON name, number = 1-based position after implicit leading fields, proto type, cardinality, optionality, oneof membership), nested messages/enums exactly the inline types and map entries under the default or overridden name, recursively; (2) enums numbered in order after <PREFIX>UNSPECIFIED = 0; (3) services and topics: <Name>Service / <Topic>Topic, <Method>Request/Response, <Name>Message, HTTP verb and path with :name -> {snake_name}, messaging role, implicit leading metadata field = 1; (4) references: resolution is sound w.r.t. the documented import rule (declarative relation), every reference resolves and its defining file becomes a dependency; (5) acceptance: every package of a valid bundle converts; (6) soundness for whole packages: whatever compiles (conversion + link) satisfies the structural contract, and the link step changes type names only; (7) after the link step an inline type name is .<package>.Root.Path.Name and a map entry name the nested entry; (8) C02_full: every package of a valid bundle compiles (conversion, link step, link of all imported generated files) to descriptors satisfying the contract. The whole model - imports, services, topics, sub-package files, link step - is tied to the real compiler by comparing complete descriptors of generated bundles; the tables of imports.go / fields.go are re-read on every run.",
    "note": 'Partial: the package-level composition (link step under the no-capture side condition; services/topics/imports clauses as theorems rather than correspondence + direct oracle) is not yet proved; C02_full_statement is refuted (known finding: relative type names of inline types; recorded because the repair changes output pinned by j5convert/nested_test.go). Fixed: 3ec2d86 (service/topic objects exported as main-package types). Modelled, not verified: strcase (lib/Strcase.v, own stream), path.Join, protocompile name resolution, BCL front end (tied through printed text in all surface forms the printer knows). Outside the model: entities, rules/ext options, descriptions, symbol-collision checks. All theorems closed under the global context.',
    "technique": "Rocq/Coq proof (refinement of the compiler model to a declarative contract, induction on the syntax) + regenerated import/type tables + in-Coq differential correspondence on whole descriptors",
}

from props import KERNEL, HARNESS, TRANSLATOR, CORR

CONFIG = {
    "props_file": "props/C02.v",
    "coq_targets": ["props/C02.vo", "model/J5sCorr.vo"],
    "runner": "run_cmpa",
    "gens": ["gen_cmpa"],
    "level": "proof",
    "trusted_base": [
        KERNEL, TRANSLATOR + " (ImportsGen.v: imports.go constants and implicitImports; fields.go buildField/buildProperty arms: proto type, label, ensureImport constants, type-name literals per field type)", CORR, HARNESS,
        "modelled, not verified: iancoleman/strcase (coq/lib/Strcase.v, builder ent, own correspondence stream), path.Join/Clean, protocompile's linker (the model resolves type names the way the linker leaves them: absolute names; symbol-collision checks are outside the model), the BCL front end (text -> SourceFile: tied only through the generated texts, in every surface form the printer knows)",
    ],
    "assumptions": [
        "model/J5s{Ast,Walk,Convert}.v is the hand-written model of sourcewalk + j5convert + the export/resolve part of protobuild; tied to the code by the correspondence stream of this run (whole descriptors compared) and the regenerated tables",
        "entities, validation/list rules, ext options and descriptions are outside the model (other properties); names are ASCII identifiers",
    ],
    "mult_search": 3,
    "refuted": [],
    "partial": [
        "C02_full is proved for the model, with a package-level contract (package_contract) that covers the main generated file of every source file: exact message / enum sets, fields (name, JSON name, number, type kind, label, proto3_optional, oneof membership), enum values, inline nesting to any depth. NOT in the package-level contract: the type NAME a message/enum field refers to, the dependency list, the .service / .topic sub-package files, the exact set of output files - for these there are converter-level theorems (C02_service_contract, C02_topic_contract, C02_references_*, C02_imports_become_dependencies, C02_inline_type_name, C02_map_entry_type_name) that are not yet composed with compile, plus whole-descriptor correspondence and the direct oracle",
        "the symbol clause of `valid` (no two declarations of a package generate the same proto symbol) is evaluated on the model's converter output, not stated on the source; `valid` calls the model's reference resolution (completeness and soundness of resolve w.r.t. the documented rule are separate theorems). `valid` is tied to the real compiler on every generated case: valid <-> every package of the bundle is accepted",
    ],
}

MANIFEST = {
    "text": "Theorems over a Gallina model of sourcewalk + j5convert + the export/import resolution of protobuild + the link boundary (qualifyTypeNames of fix 2ef7c92, the linker's symbol table, file-scope resolution of method types), for every name-conversion function and every declaration at every nesting depth (mutual induction on the syntax): (1) contract of properties: fields exactly the declared ones (name, JSON name, number = 1-based position after implicit leading fields, proto type, cardinality, optionality, oneof membership), nested messages/enums exactly the inline types and map entries under the default or overridden name, recursively; (2) enums numbered in order after <PREFIX>UNSPECIFIED = 0; (3) services and topics: <Name>Service / <Topic>Topic, <Method>Request/Response, <Name>Message, HTTP verb and path with :name -> {snake_name}, messaging role, implicit leading metadata field = 1; (4) references: resolution is sound w.r.t. the documented import rule (declarative relation), every reference resolves and its defining file becomes a dependency; (5) acceptance: every package of a valid bundle converts; (6) soundness for whole packages: whatever compiles (conversion + link) satisfies the structural contract, and the link step changes type names only; (7) after the link step an inline type name is .<package>.Root.Path.Name and a map entry name the nested entry; (8) C02_full: every package of a valid bundle compiles (conversion, symbol table, link step, link of all imported generated files) to descriptors satisfying the structural contract of the main files. `valid` = documented restrictions + no two declarations generating the same proto symbol; on every generated bundle, every broken bundle (14 classes, 7 of them duplicate-symbol classes) and every corpus case Coq evaluates `valid` and compares it with acceptance by the real compiler. The whole model - imports, services, topics, sub-package files, link step - is tied to the real compiler by comparing complete descriptors of generated bundles; the tables of imports.go / fields.go are re-read on every run.",
    "note": 'Proved at full strength for the model (C02_full: valid bundle => every package compiles to the contract); the model is tied to the real compiler by whole-descriptor correspondence. Defects found and repaired in /repo: 3ec2d86 (service/topic request/response/message objects were exported as main-package types), 2ef7c92 (relative type names of inline types resolved into the wrong scope; names are now qualified before linking) - both inputs are regression theorems (C02_fixed_*) and corpus cases. Modelled, not verified: strcase (lib/Strcase.v, own stream), path.Join, the BCL front end (tied through printed text in all surface forms the printer knows). Outside the model: entities, rules/ext options, descriptions, symbol-collision checks of protocompile (validity demands distinct sibling names instead). All theorems closed under the global context.',
    "technique": "Rocq/Coq proof (refinement of the compiler model to a declarative contract, induction on the syntax) + regenerated import/type tables + in-Coq differential correspondence on whole descriptors",
}

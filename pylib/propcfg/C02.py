from props import KERNEL, HARNESS, TRANSLATOR, CORR

CONFIG = {
    "props_file": "props/C02.v",
    "coq_targets": ["props/C02.vo", "model/J5sCorr.vo"],
    "runner": "run_cmpa",
    "gens": ["gen_cmpa"],
    "level": "proof",
    "trusted_base": [
        KERNEL, TRANSLATOR + " (ImportsGen.v: imports.go constants and implicitImports; fields.go buildField/buildProperty arms: proto type, label, ensureImport constants, type-name literals per field type)", CORR, HARNESS,
        "modelled, not verified: iancoleman/strcase (coq/lib/Strcase.v, builder ent, own correspondence stream), path.Join/Clean, protocompile's linker (the model resolves type names the way the linker leaves them: absolute names; symbol-collision checks are outside the model), the BCL front end (text -> SourceFile: tied only through the generated texts, in every surface form the printer knows)",
    ],
    "assumptions": [
        "model/J5s{Ast,Walk,Convert}.v is the hand-written model of sourcewalk + j5convert + the export/resolve part of protobuild; tied to the code by the correspondence stream of this run (whole descriptors compared) and the regenerated tables",
        "entities, validation/list rules, ext options and descriptions are outside the model (other properties); names are ASCII identifiers",
    ],
    "mult_search": 3,
    "refuted": [],
    "partial": [],
}

MANIFEST = {
    "text": "work in progress",
    "note": "work in progress",
    "technique": "Rocq/Coq proof (refinement of the compiler model to a declarative contract, induction on the syntax) + regenerated import/type tables + in-Coq differential correspondence on whole descriptors",
}

from props import KERNEL, HARNESS, TRANSLATOR, CORR

CONFIG = {
    "props_file": "props/C13.v",
    "coq_targets": ["props/C13.vo", "model/J5sCorr.vo"],
    "runner": "run_cmpa",
    "gens": ["gen_cmpa"],
    "level": "proof",
    "trusted_base": [
        KERNEL, TRANSLATOR + " (ImportsGen.v, shared with C02)", CORR, HARNESS,
        "modelled, not verified: as for C02 (strcase, path.Join, protocompile's relative-name resolution, the BCL front end)",
    ],
    "assumptions": [
        "the compiler model of C02 (model/J5s{Ast,Walk,Convert,Link}.v); both versions of every generated package are compiled by the real compiler and by the model, and must agree",
    ],
    "mult_search": 3,
    "refuted": ["C13_append_breaks_existing_refuted"],
    "partial": [],
}

MANIFEST = {
    "text": "work in progress",
    "note": "work in progress",
    "technique": "Rocq/Coq proof (prefix preservation of the compiler model under append, induction on property lists) + in-Coq differential correspondence on both versions + direct restriction-equality oracle on the real descriptors",
}

from props import KERNEL, HARNESS, TRANSLATOR, CORR

CONFIG = {
    "props_file": "props/C13.v",
    "coq_targets": ["props/C13.vo", "model/J5sCorr.vo"],
    "runner": "run_cmpa",
    "gens": ["gen_cmpa"],
    "level": "proof",
    "trusted_base": [
        KERNEL, TRANSLATOR + " (ImportsGen.v, shared with C02)", CORR, HARNESS,
        "modelled, not verified: as for C02 (strcase, path.Join, protocompile's linker beyond qualifyTypeNames + symbol table, the BCL front end)",
    ],
    "assumptions": [
        "the compiler model of C02 (model/J5s{Ast,Walk,Convert,Link}.v); both versions of every generated package are compiled by the real compiler and by the model, and must agree",
    ],
    "mult_search": 3,
    "refuted": [],
    "partial": [
        "C13_full is proved for the model of C02 (same distance to the code: main files, sub-package files, link boundary, symbol table are modelled and tied by whole-descriptor correspondence; entities, rules, options, descriptions are outside the model). Hypothesis seq_ok: every edit addresses a source file and leaves the bundle valid; `valid` is tied to acceptance by the real compiler on both sides of every generated pair. No class of append edits is excluded (until fix a65e1f2: an option ending in UNSPECIFIED appended to an enum without options)",
    ],
}

MANIFEST = {
    "text": 'Theorems over the C02 compiler model. Edits (J5sEdit.edit): a field at the end of an object / oneof / request / response / topic message, or of any inline type or nested declaration inside one, at any depth (through array and map items); an option at the end of a declared, nested or inline enum, whatever it is called and whether or not the enum has options (C13_append_option_always, C13_zero_value_fixed: value 0 is <PREFIX>UNSPECIFIED whatever the options are); a nested declaration at the end of an object / oneof; a declaration at the end of a file. (1) mapProperties(ps ++ [p]) = mapProperties(ps) ++ [(next, p)]; a run of properties with one more at the end converts to the same fields, nested messages and enums followed by the new ones; an appended option keeps every earlier value (name, number). (2) Every edit, and every sequence of edits, extends the source file in the sense of a syntactic relation (file_src_ext; props_ext / nesteds_ext for the deep targets). (3) Extended source files convert, in environments that only grow, to descriptors into which the old ones embed (files_ext: same names and kinds, old fields a prefix with identical name / JSON name / number / type / label / optionality / type name, old nested messages, enums, enum values, services, methods - types and HTTP rule - all present and unchanged); exports only grow, so references keep resolving. (4) C13_full: for every valid bundle, package and sequence of edits each leaving the bundle valid, the edited package compiles (conversion + link) and the old linked descriptors embed into the new ones; induction over the edit list. Every generated pair is compiled by the real compiler and by the model, the generated edit list is handed to Coq as J5sEdit.edit terms and the model applied to the edited source must reproduce the real output, the embedding relation of C13_full is evaluated in Coq on the REAL before / after descriptors of every pair by a boolean test proved sound for it (C13_embedding_checker_sound), and a direct oracle in Go checks restriction-equality of the old elements (fully qualified type names included) independently.',
    "note": 'Proved at full strength for the model (C13_full), deep targets included (C13_append_anywhere_extends, C13_deep_edits_preserve). Defect found and repaired in /repo: 2ef7c92 (an appended inline type named like an enclosing message captured the relative type names of existing fields; shared root cause with C02) - regression theorem C13_fixed_append_keeps_existing and corpus case. Second defect repaired in /repo: a65e1f2 (an option ending in UNSPECIFIED appended to an enum WITHOUT options became its first option and therefore the zero value - `enum Status {}` has STATUS_UNSPECIFIED = 0, with `option OLD_UNSPECIFIED` appended value 0 was STATUS_OLD_UNSPECIFIED; now only UNSPECIFIED / <PREFIX>UNSPECIFIED spell the zero value) - regression theorems C13_fixed_append_to_empty_enum, C13_fixed_append_to_empty_nested_enum, C13_empty_enum_any_option_preserves and corpus pairs; until then this was the recorded finding and C13_full excluded the class. Same trusted base as C02.',
    "technique": "Rocq/Coq proof (embedding of the old descriptors under a syntactic extension relation, mutual induction on the relation; induction over edit lists) + in-Coq differential correspondence on both versions + direct restriction-equality oracle on the real descriptors",
}

from props import KERNEL, HARNESS, TRANSLATOR, CORR

CONFIG = {
    "props_file": "props/C13.v",
    "coq_targets": ["props/C13.vo", "model/J5sCorr.vo"],
    "runner": "run_cmpa",
    "gens": ["gen_cmpa"],
    "level": "proof",
    "trusted_base": [
        KERNEL, TRANSLATOR + " (ImportsGen.v, shared with C02)", CORR, HARNESS,
        "modelled, not verified: as for C02 (strcase, path.Join, protocompile's relative-name resolution, the BCL front end)",
    ],
    "assumptions": [
        "the compiler model of C02 (model/J5s{Ast,Walk,Convert,Link}.v); both versions of every generated package are compiled by the real compiler and by the model, and must agree",
    ],
    "mult_search": 3,
    "refuted": [],
    "partial": [],
}

MANIFEST = {
    "text": 'Theorems over the C02 compiler model: mapProperties(ps ++ [p]) = mapProperties(ps) ++ [(next, p)]; converting a run of properties with one more property at the end leaves every earlier field, nested message and nested enum exactly as it was (they form a prefix) and gives the new field the next number - for objects, oneofs, requests, responses, topic messages and inline types at any depth; a new enum option at the end keeps every earlier value (name, number) and takes the next number. The full statement over edit sequences (fold_left of append edits, old descriptors embedded in the new ones) is stated and refuted by the faithful model: appending `field foo object {}` to `object Foo { field x object {} }` makes the package fail to link (C02 finding). Both versions of every generated package are compiled by the real compiler and by the model (must agree), and a direct oracle checks restriction-equality of the old elements on the real descriptors.',
    "note": 'Partial: the descriptor-embedding theorem (files_ext) for whole packages and edit sequences is stated (C13_full_statement) but refuted in general; its restriction to capture-free packages is not yet proved - what is proved are the prefix-preservation lemmas it rests on. Known finding shared with C02. Same trusted base as C02.',
    "technique": "Rocq/Coq proof (prefix preservation of the compiler model under append, induction on property lists) + in-Coq differential correspondence on both versions + direct restriction-equality oracle on the real descriptors",
}

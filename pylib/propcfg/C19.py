from props import KERNEL, HARNESS, TRANSLATOR, CORR

CONFIG = {
    "props_file": "props/C19.v",
    "coq_targets": ["props/C19.vo", "model/BclFmtCorr.vo", "proofs/BclFmtGenProofs.vo", "proofs/BclPanicSitesProofs.vo", "proofs/BclFmtGenAllProofs.vo", "proofs/BclFmtGenAll2Proofs.vo"],
    "runner": "run_bcl",
    "gens": ["gen_bcl"],
    "level": "proof",
    "trusted_base": [
        KERNEL,
        TRANSLATOR + " (TokensGen.v, UnicodeGen.v as for C11: token enumeration, operators, switch arms, panic( sites incl. fmt.go diffFile, unicode tables; BclFmtGen.v: the conditions of FmtDiffs (merge <, extend >, first idx == 0, leading > 0, gap > and != newline, suppression !=), its FmtDiff literals, rangeLines' slice expression, singleLineTokens / multiLineToken line ranges as lib/GoExpr terms, evaluated against merge_diffs / diffs_loop / range_lines / single_line / multi_line on probe grids in proofs/BclFmtGenProofs.v and for ALL inputs in proofs/BclFmtGenAllProofs.v (fmt_diffs_of_all: FmtDiffs' two loops and rangeLines run on the table's expressions = the model's fmt_diffs_of); BclIndexGen.v as for C11)",
        CORR, HARNESS,
        "modelled, not verified: strings.Split/Join, the Go slice expression lines[from:to] (bounds as in the language spec, cap = len for the result of strings.Split), string comparison, []rune conversion and UTF-8 encoding of the formatter's text; the application of TextEdits by an LSP client is modelled as replacement of whole lines (character 0 ranges), genlsp/format.go is modelled (lsp_format: TextEdit{(uint32(From),0),(uint32(To),0),NewText}) and compared in Coq on every case; the editor is modelled twice: lsp_apply (character-0 edits by line offsets, a position past the last line being the end of the document) and the general protocol client of model/BclLsp.v (clamp_pos: the LSP 3.17 rule for positions beyond the document / the line; pos_offset: byte offset of any (line, UTF-16 character); client_apply); the server does no clamping of its own (genlsp/format.go), real clients are not in the loop",
        "add-only hooks: internal/bcl/internal/parser/verif_export.go, internal/bcl/genlsp/verif_export.go, internal/bcl/verifbcl, lib/verifshim/bcl (build tag verif)",
    ],
    "assumptions": [
        "model/BclFmt.v is the hand-written model of fmt.go (Fmt, FmtDiffs, collectFmtFragments, fmter, tokenSource) and description.go as they are after the fix: commits listed in KNOWN_FINDINGS.txt, on top of the C11 models of lexer and walker; tied to the code by this run's correspondence (FmtDiffs edit lists byte for byte, or its error / panic) and by the regenerated tables",
        "two models of application, proved to agree (C19_offset_apply_is_line_apply): whole-line replacement (apply_edits, C19_full) and replacement by character offset of ranges (line,0)-(line,0) in the original text with positions past the last line clamped to the end of the document (lsp_apply, C19_lsp); C19_lsp assumes fewer than 2^32 lines (uint32 conversion); a blank line is one whose runes all satisfy unicode.IsSpace; the clamping an LSP client performs is no longer an assumption of the statement: C19_clamping_is_identity shows it changes no position of the edits produced except an end position on line = number of lines (the end of the document), and C19_client_apply_is_offset_apply that the general client computes exactly lsp_apply's text (C19_client)",
    ],
    "mult_search": 4,
    "refuted": [],
    "partial": [],
}

MANIFEST = {
    "text": "Theorems over a Gallina model of FmtDiffs on top of the proved lexer/walker models, for all inputs: FmtDiffs never panics (lines[from:to] always in bounds) and never exhausts fuel; whenever the formatter accepts a file the edit list is computed and is ascending, non-overlapping with start<=end<=#lines (from the invariant that the walker's fragments come in non-decreasing line order inside the document, proved from the token-order theorem of C11, and a proof that merging fragments sharing a line yields strictly separated ranges); applying the edits (whole-line replacement) equals the formatter output up to trailing blank lines (from lexer coverage: every rune is inside a token or is skipped white space; walker coverage: every non-EOL token ends on or before the last line of some fragment, because a trailing comment and the closing EOL stay on the statement's last line; and []rune conversion commuting with line splitting). C19_full_statement is proved (C19_full); the theorems are over byte strings (fmt_bytes, fmt_diffs on the Go string, lines = strings.Split on bytes). Also: every edit text is empty or newline-terminated and no edit starts beyond the last line (C19_edit_texts_wellformed); the same for genlsp's TextEdits under a protocol-conforming client with position clamping (C19_client); formatting an already formatted document is stable at the edit level (C19_format_twice_is_stable).",
    "note": "Full statement proved at both levels (C19_full over FmtDiffs' edits, C19_lsp over genlsp's TextEdits with an offset-based editor model) for the code after fixes e44da54 (hdr.End), 4de979f (merge fragments sharing a line) and ab17fab (white-space-only one-line gaps). Trusted: Coq kernel, translator, harness; Go slices/strings/[]rune modelled, the editor's application of TextEdits modelled (offset-based, clamping). All C19 theorems closed under the global context.",
    "technique": "Rocq/Coq proof (fragment-order invariant from the walker theorems; induction over merged fragments relating the edit loop, apply_edits and Fmt's line structure) + in-Coq differential correspondence of edit lists and of genlsp's TextEdits + direct oracle applying the edits",
}

from props import KERNEL, HARNESS, TRANSLATOR, CORR

CONFIG = {
    "props_file": "props/C04.v",
    "coq_targets": ["props/C04.vo", "model/RulesReadCorr.vo", "proofs/RulesReadGenProofs.vo"],
    "runner": "run_scha",
    "gens": ["gen_scha", "gen_id62"],
    "level": "proof",
    "trusted_base": [
        KERNEL,
        TRANSLATOR + " (RulesGen.v: the writer's and the reader's integer-rule switches, the list-rule arms both use per integer format, the array-rules condition, the id62 pattern uses)",
        CORR, HARNESS,
        "modelled, not verified: protobuf option plumbing (proto.SetExtension / GetExtension, HasOptionalKeyword, source locations) is abstracted as the record [fout]; the harness dumps it from the real linked descriptors and refuses (COther / XOther / LOtherArm / None) whatever the abstraction cannot express",
        "second clause (the printed .proto text reflects to the same schema): proved conditionally (C04_text_clause: reflection depends on a field only through c04_proj; hypothesis = print + parse preserves that view, checked per generated object by the C04Text stream) and decided by the direct oracle: print with the real printer, parse with the protosrc compiler the toolchain uses for generated files, reflect, compare with the in-memory result; the printer/parser pair itself is C05's subject",
    ],
    "assumptions": [
        "model/RulesWrite.v and model/RulesRead.v are hand-written models of fields.go buildField/buildProperty and of schema_from_proto.go messageProperties/buildSchemaProperty/buildScalarType/buildFromStringProto/wktSchema/buildEnumFieldSchema/buildMessageFieldSchema; both are tied to the code on every run: write_object against the annotations the real compiler emits, read_object (on those observed annotations) against the real reflector's ToJ5Root",
        "'the declared schema' is compared in the normal form RulesRead.norm_prop: exclusive flags that are false or have no bound are dropped (norm_int, proved meaning-preserving), absent enum / bytes rules equal empty rules, array rules are reported (empty) whenever items carry a constraint, enum option names in short form, primaryKey = false equals no entity type, a primary key is required, descriptions as commentDescription cleans them",
        "per compile unit one generated enum (2-5 options, default or explicit prefix, optional explicit UNSPECIFIED), one object and one oneof are the reference targets; enum info fields and option info are not generated; rules of object / oneof / timestamp / float fields are not generated (the compiler implements none of them)",
        "three quarters of the compile units go through j5s text, one quarter through the source AST (lib/verifshim/scha: negative integer bounds, present-but-empty rules messages)",
    ],
    "mult_search": 3,
    "refuted": ["C04_string_format_refuted", "C04_array_any_types_refuted", "C04_array_key_custom_refuted", "C04_array_key_informal_refuted", "C04_key_custom_listrules_refuted", "C04_key_listrules_refuted", "C04_array_key_refuted",
                "C04_array_date_rules_refuted", "C04_array_flatten_refuted", "C04_map_item_listrules_refuted", "C04_enum_unspecified_refuted",
                "C04_full_refuted"],
    "partial": ["C04_partial", "C04_property", "C04_exact", "C04_property_exact", "C04_text_clause", "C04_enum"],
}

MANIFEST = {
    "text": "Theorem (for every object whose properties lie in the fragment rt_ok, all rule values: absent, zero, boundary, both booleans): reading back the annotations the modelled writer emits yields exactly the declared properties in normal form — names, order, proto paths [1..n], required / explicitly optional, every field type with format, flatten, key format (informal / custom / uuid / id62) and entity key (primary, foreign, tenant), descriptions, validation rules (integer bounds with inclusivity, string, bytes, bool, enum in / not-in as names, array counts + uniqueness, date / decimal bounds) and list rules per type. Proved per field type as writer/reader inverse lemmas and lifted over singular / array / map properties and objects (oneof roots share the property code); enums as root schemas: description, prefix, option names, numbers and descriptions read back as declared (C04_enum). Writer and reader models are tied to the code by regenerated switch tables and by differential correspondence against the real compiler and the real reflector; the direct oracle compares declared and reflected schema_j5pb.ObjectProperty values and the schema reflected from the printed .proto text.",
    "note": "Partial, with an exact boundary (C04_exact: a compiled object reads back as declared iff all its properties lie in rt_ok): outside the fragment the full statement is refuted on the model and on the real code (known findings): string format (never written), key:custom / key:informal inside arrays, custom or unformatted keys carrying list rules, array items whose annotation lives in (j5.ext.v1.field) (date/decimal rules, flatten, unformatted keys), list rules declared on map item schemas. The second clause (printed text) is proved only under the hypothesis that print + parse preserves the reader's view of each field (C05's subject; checked per object), plus the direct oracle (one known finding: options on map values cannot be printed). Sixteen writer/reader asymmetries found by this check were repaired in /repo (KNOWN_FINDINGS.txt fixed: lines). All theorems closed under the global context.",
    "technique": "Rocq/Coq proof (writer/reader inverse lemmas by case analysis, list induction for objects) over Gallina models of the annotation writer and the schema reader + regenerated switch tables + in-Coq differential correspondence against the real compiler and reflector",
}

from props import KERNEL, HARNESS, TRANSLATOR, CORR

CONFIG = {
    "props_file": "props/C08.v",
    "coq_targets": ["props/C08.vo", "model/CodecEncCorr.vo"],
    "runner": "run_codecenc",
    "gens": ["gen_codecenc"],
    "level": "proof",
    "trusted_base": [
        KERNEL,
        TRANSLATOR + " (ReadmeGen.v: rows of README.md 'Scalar Types'; EncSwitchGen.v: arms of encodeScalarField and scalarGoFromReflect, add* helpers of encoder.go, DateString verb, time layout, base64 encoding)",
        CORR, HARNESS,
        "section hypothesis float_text_ok: strconv.FormatFloat(v,'g',-1,bits) of a finite float is a JSON number (exercised against strconv on every float of every generated message)",
        "premise of C08_full_statement: the inner encoding of an Any payload is a JSON text (for C08_encode_is_print: compact JSON, inner_ok). It is a recursive Codec.encode: C08_inner_encoding_is_compact proves the premise for the encoder run on the payload message of a registered type, nested to any depth; protobuf wire unmarshalling and the type resolver stay abstract",
        "modelled, not verified: protoreflect Has/Get/Range (CodecTypes presence algebra), j5schema ClientProperties (the environment is dumped from the real reflector for every run), strconv.FormatInt/FormatUint, encoding/base64, time.Unix/Format, fmt %04d/%02d, utf8.DecodeRuneInString — each has its own correspondence stream",
    ],
    "assumptions": [
        "schemas of the run: fixed roots of /repo's test schema and of verif.wide.v1 plus schemas generated per seed (random j5s packages compiled with the real compiler; random raw descriptors), every message type the reflector accepts being a root",
        "model/CodecEnc.v is the hand-written model of encoder.go, structure_encode.go, scalarGoFromReflect and the RangeValues/GetOne presence walk; tied to the code by the correspondence stream of this run and by the regenerated switch tables",
        "the specification model/CodecEncSpec.v (wire_format) is declarative; its per-type JSON token class is proved equal to the README table regenerated on every run",
        "no condition on the message: a stored j5_json text that is not one JSON value in valid UTF-8 makes the model encoder fail, as the real one does since /repo aae6009 (stored_json; before that fix the text was copied out verbatim and the output was not JSON: C08_any_stored_text_v0_refuted); for the stronger C08_encode_is_print the stored texts are compact JSON (raw_root); oneof schemas list members with a proto path (oneofs_flat, checked on every environment of the run)",
        "Go map iteration order: the model emits VMap entries in list order; theorems quantify over every order; multi-entry maps are compared modulo member order",
    ],
    "mult_search": 4,
    "refuted": [],
    "partial": [],
}

MANIFEST = {
    "text": "Theorems over a Gallina model of the J5 JSON encoder (encodeObjectBody/encodeOneofBody/encodeAny/encodeValue/encodeMap/encodeArray/encodeEnum/encodeScalarField, scalarGoFromReflect, RangeValues/GetOne presence), for all schema environments whose oneof schemas list members with a proto path (oneofs_flat, decided on every environment of the run) and ALL messages: a successful encoding is a text that the strict RFC 8259 reader reads as a tree J (for compact stored texts it is exactly the compact print of J; parse(print J) = J proved for all well-formed trees; a standalone JSON text is read the same way inside a longer text) and that satisfies the declarative wire format (32-bit ints/floats/bools bare, 64-bit ints and decimals quoted, bytes padded std base64 with the strict std decoder as inverse, timestamps of years 0001-9999 as YYYY-MM-DDTHH:MM:SS[.fraction]Z whose fields denote the encoded instant in UTC and which the RFC 3339 reader reads back, dates as 4-2-2 zero-padded digits that read back as the same numbers, oneof = {} or {!type, that key}, Any = {!type, value} where the value of a j5 Any storing JSON text is that text's JSON value (a payload stored as proto bytes: whatever the inner encoding yields), unset omitted); enum option names, member JSON names and the hoisting of flattened children are those of the environment dumped from the real reflector (ClientProperties) — their correctness is the reflector's, not a theorem here; NaN/Inf and out-of-range dates/timestamps still give well-formed JSON. The per-type token class of the specification is proved equal to README.md's Scalar Types table, the Go switch tables re-read on every run are proved equal to a label table (model_repr), and every successful output of the model's scalar arms is proved to have the shape its label says (C08_scalar_arms).",
    "note": "C08_full_statement is a proved theorem with no premise on the message (embedded j5_json / inner Any texts: any well-formed JSON text, copied verbatim; proofs/CodecEncEmbed.v). Found and repaired in this work: a j5 Any whose stored j5_json bytes are not JSON was copied out verbatim (ProtoToJSON succeeded with a non-JSON text); /repo aae6009 makes encodeAny check json.Valid && utf8.Valid and fail otherwise, the model follows (stored_json), the oracle judges such messages (pinned corpus any-stored-text, counter refused_illformed_stored_j5json). Section hypotheses (explicit premises): strconv float text is a JSON number; inner Any encodings are JSON. Trusted: Coq kernel, translator, harness; protoreflect presence, the reflector's ClientProperties, strconv, base64, time, fmt are modelled and tied by correspondence, not verified. All theorems closed under the global context.",
    "technique": "Rocq/Coq proof (print/parse inverse for JSON trees by induction, structural induction on encoder fuel, computed agreement with README and go/ast tables) + in-Coq differential correspondence on generated (schema, message) pairs + schema-directed wire-format oracle on real output",
}

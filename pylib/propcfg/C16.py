from props import KERNEL, HARNESS, TRANSLATOR, CORR

CONFIG = {
    "props_file": "props/C16.v",
    "coq_targets": ["props/C16.vo", "model/PipelineCorr.vo"],
    "runner": "run_tool",
    "gens": ["gen_tool"],
    "level": "proof",
    "trusted_base": [
        KERNEL,
        TRANSLATOR + " (SwaggerGen.v: convertSchema / ConvertRootSchema arms, alternatives of j5.schema.v1.Field read from the oneof wrapper structs of schema.pb.go, addStructure suffix literals, buildMethod literals and http arms, the HasBody expression, fillRequest literals, collectPackageRefs and walkSchemaFields switch arms and parameter count)",
        CORR, HARNESS,
        "harness abstraction: services are read from the image's descriptors, schemas from the real source API (RootSchema -> kinds and references); the abstraction code (harness/cmd/run_tool/work.go) is trusted",
        "modelled, not verified: protocompile parse+link of the printed text, protodesc.NewFiles, j5schema reflection (descriptor -> schema -> J5 root -> schema -> client root) is treated as the identity on the abstracted schemas, path.Join of base path and method path, json.Marshal of the export document, j5codec.ProtoToJSON of the client API (covered by C01/C08)",
    ],
    "assumptions": [
        "model/Pipeline.v is the hand-written model of addStructure/buildMethod/buildTopicMethod, fillRequest, collectPackageRefs, walkSchemaFields, buildListRequest shape checks and the convertSchema arm coverage; it is tied to the code by the correspondence streams of this run and by the regenerated tables",
        "ToSnake is a parameter of the path law (section variable): the law is proved for every function that is injective on the request's property names and produces no '/', refuted for any two names with equal image, and instantiated with lib/Strcase.v (byte-exact model of iancoleman/strcase, builder ent): it holds for lowerCamel property names",
        "entities: walkSourceSchemas/includeEntity and StateEntity.ToJ5Proto are exercised by the chain oracle and the correspondence (entity key/state/event objects are extra walk roots) but have no theorem; flattened (ClientProperties) objects are not generated",
    ],
    "mult_search": 3,
    "refuted": ["C16_list_walk_unguarded_refuted (snapshot code, repaired by fix 00dc9de)", "C16_swagger_snapshot_refuted (snapshot code, repaired by fix d8c3aa8)",
                "C16_swagger_nil_response_snapshot_refuted (snapshot code, repaired by fix 7b835ba)", "C16_path_law_collision_refuted, C16_strcase_collision_refuted (class of names outside the law: fooId vs foo_id)"],
    "partial": ["C16_full (the composed chain theorem) covers packages of services with any schema graph, every field type, methods with and without response body, list methods (over recursive item objects too) and topics; outside it: entities (walkSourceSchemas / StateEntity.ToJ5Proto not modelled; exercised by the oracle and the correspondence only)"],
}

MANIFEST = {
    "text": "Theorems over a Gallina model of the downstream chain (addStructure/buildMethod, the {snake} <-> :jsonName path mapping, fillRequest, collectPackageRefs, walkSchemaFields, convertSchema arm coverage): buildMethod accepts what the compiler emits for every declared method and recovers the declared verb and path (for every ToSnake injective on the request's property names; refuted for colliding names); fillRequest partitions the request properties into path/query/body for every verb, path and property list; the reference walk with a visited set terminates within fuel = number of schemas + 1 on every schema graph incl. cyclic ones and returns exactly the reachable schemas; the list walk terminates with the recursion guard and provably diverges without it; every alternative of j5.schema.v1.Field (list read from the generated code) has a convertSchema arm (list read from convert.go). Tied to the code by regenerated tables and by running the real chain compile -> PrintFile -> ReadFSImage -> APIFromImage -> APIFromSource -> J5 JSON -> BuildSwagger -> json.Marshal on generated packages (recursive objects, every field type in request/response/path position, list methods, methods without response, topics, entities) in crash-isolated workers, plus mutated service files, hand-built descriptors and hand-built source APIs with cyclic graphs.",
    "note": "Level: proof. The composed chain theorem C16_full is proved for packages of services (any graph, every field type, with/without response, list methods, topics); entities are covered by the oracle and the correspondence only (partial). Trusted: Coq kernel, translator, harness incl. its descriptor/schema abstraction; protocompile, protodesc, j5schema reflection, path.Join and the JSON encoders are modelled-not-verified. Six defects of the snapshot on this path were repaired by fix: commits (walkSchemaFields recursion, five missing swagger arms, nil response body in swagger/jdef export, nil response in buildListRequest, empty type name for self-referencing fields in protoprint, json_name not printed by protoprint).",
    "technique": "Rocq/Coq proof (DFS invariant with visited set, list partition, string split/join inverse laws) + regenerated switch-arm tables with computed coverage lemma + in-Coq differential correspondence on the real chain",
}

from props import KERNEL, HARNESS, TRANSLATOR, CORR

CONFIG = {
    "props_file": "props/C03.v",
    "coq_targets": ["props/C03.vo", "model/CodecDecCorr.vo"],
    "runner": "run_codecdec",
    "gens": ["gen_codecdec"],
    "level": "proof",
    "trusted_base": [
        KERNEL,
        TRANSLATOR + " (SwitchGen.v: switch arms of scalarReflectFromGo per kind, strconv error handling of the integer string arms, UINT64 number path, decimal json.Number arm and exponent bound, OptionByName exact-match-first, DateFromString calendar check, CreateField oneof-conflict check, leaf-map duplicate-key check, decodeValue dispatch / null handling / nesting bound)",
        CORR, HARNESS,
        "direct oracle: an independent reading of each generated document in the harness (math/big, strconv, encoding/base64, time.Date; shares no code with pentops/j5) classifies every scalar as must-accept / either / must-reject and computes the denoted message",
        "modelled, not verified: encoding/json tokenizer, strconv.ParseInt/ParseUint/Atoi, base64 StdEncoding.DecodeString, protoreflect presence semantics",
        "uninterpreted (fed from the real library per run): strconv.ParseFloat, time.Parse(RFC3339), decimal.NewFromString — float, timestamp and decimal exactness is checked by the direct oracle only, not proved",
    ],
    "assumptions": [
        "model/CodecDec.v + CodecDecScalar.v are the hand-written model of the decoder; tied to the code by the regenerated tables and by the correspondence stream of this run",
        "schemas: the environments the real reflector derives for test.schema.v1.{FullSchema,WrappedOneof,NestedExposed,ImplicitOneof,Bar} and the dynamic verif.wide.v1.{Wide,Choice,Flat}",
        "codec options: the default codec; google.protobuf.Any needs WithProtoToAny and is outside the streams",
    ],
    "mult_search": 3,
    "refuted": [],
    "partial": [
        "proved for all inputs: integer exactness / quoted-or-bare leniency / out-of-range, unparsable and wrong-type rejection for the four widths over all of Z; bool, string, key exactness; enum exactness, prefix leniency, unknown-name rejection; date exactness and invalid-date rejection; at the position where they stand: explicit null skipped, duplicate member, unknown key (object, oneof), second member of a proto oneof, more than one key in a oneof, contradicting \"!type\", null array element rejected; an error in a member fails its object",
        "not proved (checked by the direct oracle and the correspondence only): base64 spelling equivalence, float / timestamp / decimal exactness (library functions uninterpreted), the document-level statement (exactness and rejection at an arbitrary position by induction on the path) and the query clause",
    ],
}

MANIFEST = {
    "text": "Theorems over the Gallina model of the J5 decoder: for the four integer widths over all of Z a stored integer is exactly the value its digits denote, every representable integer decodes to itself quoted and bare, and out-of-range / unparsable / wrongly typed values are errors; bool, string and key values are stored as written; enum names decode with or without the prefix to the option they name and unknown names are errors; dates are calendar dates or errors; explicit nulls leave the message untouched; duplicate members, unknown keys, a second member of a proto oneof, several keys in a oneof, a contradicting \"!type\" and null array elements are errors where they stand and a member's error fails the enclosing object. On every run an independent reader in the harness computes what each generated document denotes (canonical encodings, every documented spelling variation in combination, one injected fault per document at a random position, URL-query spellings) and compares it with the real decoder's result; the same documents tie the model to the code.",
    "note": "Partial: the document-level induction over positions, base64 equivalence and float/timestamp/decimal exactness are checked by oracle and correspondence, not proved. Trusted: Coq kernel; translator; harness incl. the independent reader; tokenizer/strconv/base64/protoreflect models.",
    "technique": "Rocq/Coq proof (radix round trip, case analysis over the scalar switches and the member/oneof checks) + regenerated switch tables + in-Coq differential correspondence + independent document reader as direct oracle",
}

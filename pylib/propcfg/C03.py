from props import KERNEL, HARNESS, TRANSLATOR, CORR

CONFIG = {
    "props_file": "props/C03.v",
    "coq_targets": ["props/C03.vo", "model/CodecDecCorr.vo"],
    "runner": "run_codecdec",
    "gens": ["gen_codecdec"],
    "level": "proof",
    "trusted_base": [
        KERNEL,
        TRANSLATOR + " (SwitchGen.v: switch arms of scalarReflectFromGo per kind, strconv error handling of the integer string arms, UINT64 number path, decimal json.Number arm and exponent bound, OptionByName exact-match-first, DateFromString calendar check, CreateField oneof-conflict check, leaf-map duplicate-key check, decodeValue dispatch / null handling / nesting bound)",
        CORR, HARNESS,
        "direct oracle: an independent reading of each generated document in the harness (math/big, strconv, encoding/base64, time.Date; shares no code with pentops/j5) classifies every scalar as must-accept / either / must-reject and computes the denoted message",
        "modelled, not verified: encoding/json tokenizer, strconv.ParseInt/ParseUint/Atoi, base64 StdEncoding.DecodeString, protoreflect presence semantics",
        "uninterpreted (fed from the real library per run): strconv.ParseFloat, time.Parse(RFC3339), decimal.NewFromString — float, timestamp and decimal exactness is checked by the direct oracle only, not proved",
    ],
    "assumptions": [
        "model/CodecDec.v + CodecDecScalar.v are the hand-written model of the decoder; tied to the code by the regenerated tables and by the correspondence stream of this run",
        "schemas: the environments the real reflector derives for test.schema.v1.{FullSchema,WrappedOneof,NestedExposed,ImplicitOneof,Bar} and the dynamic verif.wide.v1.{Wide,Choice,Flat}",
        "codec options: the default codec; google.protobuf.Any needs WithProtoToAny and is outside the streams",
    ],
    "mult_search": 3,
    "refuted": [],
    "partial": [
        "document level, proved: the token-level model (tied to the Go code) computes on the tokens of a document tree exactly the tree reading CodecDecTree.tr_decode (C03_token_model_is_tree_reading); REJECTION clause in full: a fault of any listed class (wrong JSON type, conversion refuses the text, unknown enum name, unknown key, null element / map value, non-string \"!type\", more than one key in a oneof, contradicting \"!type\") at any position to any depth makes JSONToProto return an error (C03_fault_at_any_position_rejected); EXACTNESS clause under the schema condition props_separate (distinct properties of a set write to diverging proto paths; members of one proto oneof are covered, their mutual exclusion being enforced by the modelled CreateField conflict check; the condition is decidable, props_separate_b_sound, and the correspondence evaluates it on every environment dumped from the real reflector): every non-null member of an accepted document is decoded by its own property's decoder and the field it wrote is unchanged at the end, scalars hold exactly the converted value, arrays every element in order, object members the decode of the sub-document (C03_document_members_stored, C03_document_scalars_stored, C03_nested_members_stored, C03_object_member_own, C03_array_member_own)",
        "exactness is NOT proved for map entries beyond the duplicate-key rejection, nor for arrays of objects / oneofs beyond the per-element decode",
        "scalar level, proved for all inputs: integers of the four widths over all of Z (value = positional reading of the digits, independent of the parser: C03_decimal_reading; quoted or bare; out-of-range, unparsable, wrong type rejected); bool / string / key stored as written; floats and decimals: quoted = bare for ANY behaviour of the library conversion, wrong type rejected — but their VALUE exactness (correct rounding, decimal canonical form), timestamps at any offset are NOT proved (strconv.ParseFloat, time.Parse, decimal.NewFromString are uninterpreted): direct oracle + correspondence only; base64: the four spellings (standard / URL-safe alphabet, padded / unpadded) of lib/Base64.b64_encode bs decode to bs for every byte string, and a character outside both alphabets is rejected wherever it stands (C03_base64_four_spellings, C03_base64_foreign_char_rejected); enum prefix leniency holds unless the prefixed text is itself a short name; dates: the three numbers stored are the numbers written and form a calendar date",
        "LENIENCY clause at document level: documents of the same shape whose leaves are respelled in any combination, at any depth, decode to the same message or both to an error (C03_respelled_documents_same_result; the leaf-level facts are the scalar theorems: quoted / bare integers, floats, decimals, the four base64 forms, enum prefix); explicit null members are proved to be skipped at member level (C03_null_member_skipped). NOT proved: timestamps at different offsets (time.Parse uninterpreted), member reordering, insignificant whitespace and null-padding lifted to whole documents — checked by the variant stream of the direct oracle only",
        "query clause: one scalar value for the last path component stores what the corresponding JSON token would (C03_query_scalar_as_json); enums, arrays and dotted paths by correspondence only",
    ],
}

MANIFEST = {
    "text": "Theorems over the Gallina model of the J5 decoder. Document level: the token-level model is proved equal to a tree reading of the document; every fault of a listed class at any position to any depth is rejected with an error; every non-null member of an accepted document is decoded and the field it wrote survives to the final message (under a decidable schema separation condition that the run checks on the real schemas). Scalar level: for the four integer widths over all of Z a stored integer is exactly the value its digits denote, every representable integer decodes to itself quoted and bare, and out-of-range / unparsable / wrongly typed values are errors; bool, string and key values are stored as written; enum names decode with or without the prefix to the option they name and unknown names are errors; dates are calendar dates or errors; explicit nulls leave the message untouched; duplicate members, unknown keys, a second member of a proto oneof, several keys in a oneof, a contradicting \"!type\" and null array elements are errors where they stand and a member's error fails the enclosing object. On every run an independent reader in the harness computes what each generated document denotes (canonical encodings, every documented spelling variation in combination, one injected fault per document at a random position, URL-query spellings) and compares it with the real decoder's result; the same documents tie the model to the code.",
    "note": "Partial: document-level leniency (same message for respelled / reordered / null-padded documents), float / timestamp / decimal value exactness are checked by oracle and correspondence, not proved. Trusted: Coq kernel; translator; harness incl. the independent reader; tokenizer/strconv/base64/protoreflect models.",
    "technique": "Rocq/Coq proof (radix round trip, case analysis over the scalar switches and the member/oneof checks) + regenerated switch tables + in-Coq differential correspondence + independent document reader as direct oracle",
}

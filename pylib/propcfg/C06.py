from props import KERNEL, HARNESS, TRANSLATOR, CORR

CONFIG = {
    "props_file": "props/C06.v",
    "coq_targets": ["props/C06.vo", "model/CodecDecCorr.vo"],
    "runner": "run_codecdec",
    "gens": ["gen_codecdec"],
    "level": "proof",
    "trusted_base": [
        KERNEL,
        TRANSLATOR + " (SwitchGen.v: the case types of scalarReflectFromGo's type switches per kind / integer format incl. nil arms, what the integer string arms return on a strconv error, decodeValue's dispatch, the null handling of each decode function, whether decodeOneofInner returns from its type-only branch, the IsValid guards before List.Append / Map.Set, protoPair.setValue clearing on an invalid value)",
        CORR, HARNESS,
        "modelled, not verified: encoding/json Decoder.Token/More/Decode(RawMessage) with UseNumber (lib/Json.v, compared token by token with the real tokenizer on every document of the run), strconv.ParseInt/ParseUint/Atoi, encoding/base64 StdEncoding.DecodeString, protoreflect Set/Clear/Mutable/Has presence semantics (model/CodecTypes.v)",
        "uninterpreted (results fed from the real library in the correspondence; theorems hold for any results): strconv.ParseFloat, time.Parse(RFC3339), shopspring decimal.NewFromString — assumed not to panic",
        "the schema environment is the one the real j5schema reflector derives (ClientProperties, dumped per run); flattening / oneof exposure logic is an input of the model, not part of it",
    ],
    "assumptions": [
        "j5 Any values: the decoder stores json.Compact of the raw value text; the model works on tokens and stores the tokens re-printed without whitespace and with minimal string escapes, and the correspondence re-prints the implementation's stored bytes the same way before comparing — the payload is tied member by member and in order, but not in the spelling of string escapes (\\u00fc vs the raw character); the direct oracle of C03 (any-payload stream) compares the stored j5_json byte for byte with json.Compact of the member's text (member order, repeated names, escapes, number spellings)",
        "model/CodecDec.v + CodecDecScalar.v + CodecDecQuery.v are the hand-written model of internal/codec/decoder.go, query.go and the parts of lib/j5reflect they drive; tied to the code by the regenerated switch tables and by the correspondence streams of this run",
        "url.Values is a Go map: the query model takes the (key, values) pairs in visiting order, the theorem holds for every order; the correspondence accepts an observation that the model produces for some order of the keys (exact for single-key queries); strcase.ToLowerCamel and strings.TrimSpace are modelled in lib/Strcase.v",
        "codec options: the default codec (lib/j5codec.NewCodec()); WithProtoToAny (nested decode + proto.Marshal inside decodeAny) is not modelled",
        "the Go runtime's stack limit is outside the model: the theorem bounds recursion depth by the token count; the decoder's own nesting bound (10000 property values, C06_nesting_bounded) caps the recursion depth; the harness runs every call in a killable worker process (stack limit 96 MB, resident-memory limit 1.5 GB, deadline 8 s + 60 us/byte): documents nested 4x10^5 and 10^6 deep on the recursive type, through a repeated and through a map message field",
    ],
    "mult_search": 3,
    "refuted": [],
    "partial": [
        "proved in full over the model: JSONToProto and QueryToProto never panic and never exhaust fuel S(tokens) (C06_full); the nesting of property values is bounded by the constant 10000 (C06_nesting_bounded)",
        "\"in time bounded by the input size\" has NO theorem: the fuel bounds the recursion, not the work; a per-call timing budget in the harness (2 s + 50 us/byte; calls run in a worker process that is killed at the deadline or at 1.5 GB resident memory, the input in flight reported) is the only check; the error path of deeply nested documents is quadratic in the depth (capped by the nesting bound)",
        "panic sites: the model keeps three (foundKeys[0], List.Append / Map.Set of an invalid Value) and proves them unreachable; the six explicit panic( calls in the decoder's Go files are enumerated by the translator and reviewed one by one (reviewed_panic_sites, gen_panic_sites_reviewed) but their unreachability is an argument in comments, not a theorem; protoreflect kind-mismatch panics are excluded by checkValueKind (fix 6180e67) for scalar stores and otherwise by the schema being derived from the same descriptor (not modelled)",
        "the quantification over ALL environments is cheap: msg_mutable / list / map accessors are totalised (a non-message value under a message-typed path is treated as absent), so ill-typed environments that the real reflector cannot produce never fail in the model; the environments of the run are dumped from the real reflector",
        "uninterpreted: strconv.ParseFloat, time.Parse, decimal.NewFromString are total Coq functions, i.e. assumed to terminate without panic (finding e0edec1 showed decimal.String() is not harmless; the exponent guard in front of it is modelled); WithProtoToAny not modelled",
    ],
}

MANIFEST = {
    "text": "Theorems over a Gallina model of the J5 JSON decoder (recursive descent over encoding/json's token stream, the three runtime / protoreflect panic sites that the decoder's own logic must guard kept as Panic outcomes, the explicit panic( calls enumerated and reviewed): for all byte strings, all schema environments (recursive types included), all root types and whatever strconv.ParseFloat/time.Parse/decimal answer, decoding returns success or an error, never a panic, and never exhausts a fuel of (number of tokens + 1) — the index site of decodeOneofInner and the two protoreflect Append/Set sites are proved unreachable with an invalid value. The model is tied to the code by switch tables re-read from the Go AST on every run and by running model and implementation on the same valid, truncated, null-substituted, mutated, random and deeply nested documents; URL-query decoding (propertyAtPath, scalar / array / JSON-container arms) is modelled and proved total for every list of key/value pairs in any visiting order; a crash/deadline/memory oracle runs every JSON and URL-query call in a killable worker process (recover() for panics; kill at the deadline or memory limit, fatal runtime errors seen as the death of the worker; input in flight reported; the run stops after three such failures), including documents nested 10^6 deep through singular, repeated and map message fields.",
    "note": "Trusted: Coq kernel; translator; harness; encoding/json tokenizer, strconv integer parsing, base64 and protoreflect presence semantics are modelled, not verified; ParseFloat/time.Parse/decimal are uninterpreted. Linear time is not claimed: the error path of deeply nested documents is quadratic in the depth (measured, reported in evidence notes).",
    "technique": "Rocq/Coq proof (mutual induction on fuel over the recursive-descent model, case analysis of every panic site) + regenerated switch tables + in-Coq differential correspondence + crash/deadline oracle",
}

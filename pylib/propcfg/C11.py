from props import KERNEL, HARNESS, TRANSLATOR, CORR

CONFIG = {
    "props_file": "props/C11.v",
    "coq_targets": ["props/C11.vo", "model/BclCorr.vo", "proofs/BclDepthProofs.vo", "proofs/BclGenProofs.vo", "proofs/BclPanicSitesProofs.vo"],
    "runner": "run_bcl",
    "gens": ["gen_bcl"],
    "level": "proof",
    "trusted_base": [
        KERNEL,
        TRANSLATOR + " (TokensGen.v: TokenType iota block, tokens[] texts, operators as init() derives them and as the built package holds them, CanStartTag / IsLiteral / keyword sets, case labels of nextFragment and walkStatement, the message texts / formats (func_strings) and the expected token sets of every unexpectedToken / popType call (walker_expected), explicit panic( sites of the anchored files; UnicodeGen.v: unicode.IsSpace/IsDigit/IsLetter range tables computed with the toolchain that builds /repo)",
        CORR, HARNESS,
        "modelled, not verified: Go's []rune(string) conversion (lib/Text.v utf8_decode, compared on every input incl. invalid UTF-8), strings.Split on \"\\n\", map lookup, slice append, fmt/strings.Builder output of humanString (only its index and slice operations are modelled)",
        "add-only hooks: internal/bcl/internal/parser/verif_export.go, internal/bcl/genlsp/verif_export.go, internal/bcl/verifbcl, lib/verifshim/bcl (build tag verif)",
    ],
    "assumptions": [
        "model/BclLexer.v, BclParser.v, BclErrpos.v are hand-written models of lexer.go, token.go, parser.go (ParseFile, Walk, walkFragments and all productions, recoverError, fragmentsToFile), expressions.go NewReference and errpos/print.go humanString as they are after the fix: commits listed in KNOWN_FINDINGS.txt; they are tied to the code by the correspondence stream of this run (tokens with literals and ranges, fragment and tree node ranges, diagnostic ranges, humanString branch / context count / caret width) and by the regenerated tables",
        "theorems are stated over the rune slice []rune(input) (parse_runes); parse_file = parse_runes after utf8_decode by definition; 'inside the input' is proved both for lines of the rune slice and for strings.Split(input, newline) on bytes with columns counted in runes of the line (C11_valid_is_inside_bytes, from a proof that []rune conversion commutes with splitting at newlines)",
        "recursion depth: popValue recurses once per '[' and is bounded by maxValueDepth = 10000 since fix e710ab8 (the model's pop_value carries the same depth argument and bound; TokensGen reads the constant and counts the guarded recursive call); all other routines of lexer, walker, fragmentsToFile and humanString are loops. Gallina has no stack, so 'never panics' in the model covers stack exhaustion only through this bound, which the run exercises with 2,000,000 nested brackets in a child process",
        "a diagnostic is modelled as range + message bytes (errpos.Err.Err.Error()): the lexer's errf texts, unexpectedTokenError.msg() with Token.String() (literal cut to 20 bytes) and the expected-type list of the error site, the two fragmentsToFile texts, the nesting-bound text; the texts, formats (%s %c %d only) and expected sets are read from the Go source by the translator (TokensGen.func_strings, walker_expected), so a reworded message follows the code; compared byte for byte in Coq on every case. unexpectedTokenError.context ('after ...') is not part of the diagnostic (addError uses msg()) and is not modelled",
        "tree nodes covered by C11_positions_valid: block/header, assignment, description, reference, ident, tag, scalar value, array value, trailing comment, header description, and the token copies kept inside nodes: TagValue.MarkToken (when there is a mark), Description.Tokens, Value.token; Ident.Token and Comment.Token / CloseBlock.Token have the range of their node (same token) and are not dumped separately",
        "humanString is modelled as its guards and the three index / slice operations that can panic; the rendered text is not modelled (the run compares branch, context-line count and caret width)",
        "Walk on a token slice that the lexer did not produce (tokens of type EOF, empty slice with a pending pop) is outside the theorems: ParseFile only passes lexer output",
    ],
    "mult_search": 4,
    "refuted": [],
    "partial": [],
}

MANIFEST = {
    "text": "Theorems over Gallina models of the BCL lexer (state machine over runes with Go's line/column/isEOL bookkeeping), the walker (all productions, error recovery), fragmentsToFile, ParseFile and errpos humanString, for all rune strings and both failFast values: the lexer never exhausts its fuel (len+2 NextToken calls, len+1 steps per loop) and its tokens have ranges made of positions of the input with start<=end, in strictly increasing order; ParseFile always returns (no Panic from popToken on an empty slice or NewReference(nil), no OutOfFuel) a tree without diagnostics or a non-empty diagnostics list; every diagnostic and every tree node (blocks, assignments, descriptions, references, idents, tags, values, array elements, trailing comments) has both ends at positions of the input with start<=end, and such positions satisfy 0<=line<#lines, 0<=column<=#runes(line); the first collect-all diagnostic equals the fail-fast one; humanString never indexes or slices out of bounds for any diagnostics and any source. C11_full_statement is proved (C11_full).",
    "note": "Proved for the code after fixes e44da54 (block header followed by a trailing comment left End unset: start after end for the node and for the 'unclosed block at EOF' diagnostic; for upstream pentops/j5 that clause is refuted by \"a {\\nb // c\") and e710ab8 (array nesting bounded at 10000; before, 2,000,000 nested '[' ended the process with a fatal stack overflow). Trusted: Coq kernel; translator; correspondence harness; []rune conversion, strings.Split, fmt are modelled, not verified; theorems speak about runes (the byte-level wrapper is utf8_decode, tied by correspondence on invalid UTF-8 too). All C11 theorems are closed under the global context.",
    "technique": "Rocq/Coq proof (lexer invariant 'the state has consumed exactly prefix pre and the next rune lands at P(pre)'; walker invariant 'remaining tokens form a position-ordered chain above the previous token's end') + regenerated token/unicode/switch-arm tables + in-Coq differential correspondence (the bounded-exhaustive <=3-token stream is run through the Go oracle completely; the model is evaluated in Coq on all <=2-token sequences and a seeded sample of the 3-token ones in the quick tier, on all of them in the thorough tier)",
}

#!/bin/bash
# integrate.sh — merge every builder branch into the current branch (main), resolving the two known trivial conflicts.
cd "$(dirname "$0")/.."
git checkout -- coq/gen MANIFEST.json evidence harness/go.mod 2>/dev/null; git clean -fdq coq/gen
for b in ent dec enc bcl cmpa cmpb scha schb tool conc; do
  git merge --no-edit $b >/tmp/merge.out 2>&1 || grep -qi conflict /tmp/merge.out || { echo "MERGE OF $b FAILED:"; tail -5 /tmp/merge.out; }
  if git diff --name-only --diff-filter=U | grep -q .; then
    for f in $(git diff --name-only --diff-filter=U); do
      case $f in coq/_CoqProject) git rm -q --cached $f 2>/dev/null; echo "conflict $b $f -> untracked";;
        harness/go.mod|MANIFEST.json|evidence/*) git checkout --theirs $f; git add $f; echo "conflict $b $f -> theirs";;
        *) echo "UNRESOLVED CONFLICT $b $f"; exit 1;; esac
    done
    git commit -qm "merge $b"
  fi
done
python3 tools/rebuild_known.py
python3 pylib/mkmanifest.py

#!/bin/bash
# run_all_par.sh PAR [tier] [props...] — like run_all.sh, PAR checks at a time (the driver serialises the shared build steps itself).
cd "$(dirname "$0")/.."; PAR="${1:-4}"; T="${2:-quick}"; shift; shift
PROPS="$@"; [ -n "$PROPS" ] || PROPS=$(python3 -c "import json;print(' '.join(c['property_id'] for c in json.load(open('MANIFEST.json'))['checks']))")
mkdir -p .build/logs
printf '%s\n' $PROPS | xargs -P "$PAR" -I{} sh -c 'p={}; s=$(date +%s); ./check $p '"$T"' > .build/logs/$p-'"$T"'.log 2>&1; rc=$?; echo "$p rc=$rc $(( $(date +%s)-s ))s $(grep -cE "^KNOWN-FINDING" .build/logs/$p-'"$T"'.log) known; $(grep -E "^VIOLATION" .build/logs/$p-'"$T"'.log | head -1) $(tail -1 .build/logs/$p-'"$T"'.log | cut -c1-160)"'

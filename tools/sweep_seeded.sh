#!/bin/bash
# sweep_seeded.sh PAR ID... — run try_seeded for each ID (property = prefix before '-') PAR at a time; one summary line per ID.
# SBX_REPO_COMMIT=<sha> pins the /repo commit the patches are applied to (default HEAD).
cd "$(dirname "$0")/.."; PAR="$1"; shift
mkdir -p .build/seeded-logs
printf '%s\n' "$@" | xargs -P "$PAR" -I{} sh -c 'id={}; p=${id%%-*}; s=$(date +%s); out=$(VERIF_JOBS=6 tools/try_seeded.sh $id $p quick 2>&1 | grep -vE "^Preparing|^HEAD is" | tr "\n" " " | cut -c1-330); echo "$id $(( $(date +%s)-s ))s $out"'

#!/bin/bash
# try_seeded.sh SEEDED_ID PROP [tier] — run PROP's check against a private copy of /repo with seeded/<ID>/patch.diff applied.
ID="$1"; P="$2"; T="${3:-quick}"; HERE="$(cd "$(dirname "$0")/.." && pwd)"
S=/tmp/sbx-seed-$ID-$$
"$HERE/tools/mksandbox.sh" $S >/dev/null || exit 2
PF="$HERE/seeded/$ID/patch.diff"; [ -z "$SBX_REPO_COMMIT" ] && [ -f "$HERE/seeded/$ID/patch.head.diff" ] && PF="$HERE/seeded/$ID/patch.head.diff"; git -C $S/repo apply "$PF" || { echo "patch does not apply"; "$HERE/tools/rmsandbox.sh" $S; exit 2; }
( cd $S/verif && VERIF_REPO=$S/repo timeout 3000 ./check $P $T > $S/out.txt 2>&1; echo "exit=$?" >> $S/out.txt )
grep -E "^VIOLATION|^failing input|^no longer checks|exit=| -> (OK|VIOLATION)$" $S/out.txt | cut -c1-300
mkdir -p "$HERE/.build/seeded-logs"; cp $S/out.txt "$HERE/.build/seeded-logs/$ID-$P-$T.txt"
"$HERE/tools/rmsandbox.sh" $S

#!/bin/bash
# sum_seeded.sh ID... — one line per seeded id from .build/seeded-logs: outcome (INPUT / NOINPUT / MISSED / NOLOG) + first signature
cd "$(dirname "$0")/.."
for id in "$@"; do p=${id%%-*}; f=.build/seeded-logs/$id-$p-quick.txt
  [ -f $f ] || { echo "$id NOLOG"; continue; }
  if grep -q '^VIOLATION' $f; then if grep '^VIOLATION' $f | grep -q no-failing-input-found; then o=NOINPUT; else o=INPUT; fi; else o=MISSED; fi
  echo "$id $o $(grep -m1 '^failing input' $f | cut -c16-140 | tr '\n' ' ') | $(grep -E ' -> (OK|VIOLATION)$' $f | tail -1 | cut -c1-140)"
done

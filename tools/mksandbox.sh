#!/bin/sh
# mksandbox.sh DIR — private pair (DIR/repo = git worktree of /repo HEAD, DIR/verif = copy of THIS verif tree)
# for trying a change to pentops/j5 against the checks without touching /repo.
#   tools/mksandbox.sh /tmp/sbx1
#   (edit or `git -C /tmp/sbx1/repo apply patch.diff`)
#   VERIF_REPO=/tmp/sbx1/repo /tmp/sbx1/verif/check C20 quick
#   tools/rmsandbox.sh /tmp/sbx1
set -e
D="$1"; [ -n "$D" ] || { echo "usage: $0 DIR"; exit 2; }
HERE="$(cd "$(dirname "$0")/.." && pwd)"
mkdir -p "$D"
git -C /repo worktree add --detach -f "$D/repo" "${SBX_REPO_COMMIT:-HEAD}" >/dev/null
rsync -a --exclude .git --exclude 'run-*' --exclude replays "$HERE/" "$D/verif/"
sed -i "s#=> /repo#=> $D/repo#" "$D/verif/harness/go.mod"
echo "sandbox ready: VERIF_REPO=$D/repo $D/verif/check Cxx quick"

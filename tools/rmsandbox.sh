#!/bin/sh
# rmsandbox.sh DIR — remove a sandbox made by mksandbox.sh (worktree and copy).
D="$1"; [ -n "$D" ] || { echo "usage: $0 DIR"; exit 2; }
git -C /repo worktree remove --force "$D/repo" 2>/dev/null || true
rm -rf "$D"
git -C /repo worktree prune

#!/usr/bin/env python3
"""Rebuild KNOWN_FINDINGS.txt on the integration branch from the owners' branches: the lines of property Cxx are taken
from the branch that owns Cxx (a union merge can resurrect a line its owner deleted)."""
import re, subprocess, sys, os
V = os.path.dirname(os.path.dirname(os.path.abspath(__file__)))
OWNER = {"C11": "bcl", "C19": "bcl", "C09": "bcl", "C06": "dec", "C03": "dec", "C08": "enc", "C01": "enc", "C02": "cmpa", "C13": "cmpa",
         "C07": "cmpb", "C14": "cmpb", "C17": "ent", "C12": "scha", "C04": "scha", "C18": "schb", "C15": "schb", "C16": "tool", "C05": "tool",
         "C10": "conc", "C20": "conc"}
def show(branch):
    if branch == "main":
        return open(os.path.join(V, "KNOWN_FINDINGS.txt"), encoding="utf-8").read()
    return subprocess.run(["git", "-C", V, "show", branch + ":KNOWN_FINDINGS.txt"], capture_output=True, text=True).stdout
cache = {}
header = [l for l in show("main").split("\n") if l.startswith("#")]
out, seen = list(dict.fromkeys(header)), set()
for prop in sorted(OWNER):
    b = OWNER[prop]
    if b not in cache: cache[b] = show(b)
    for l in cache[b].split("\n"):
        m = re.match(r"(known|fixed):\s+property=(C\d+)\s", l)
        if m and m.group(2) == prop and l not in seen:
            seen.add(l); out.append(l)
open(os.path.join(V, "KNOWN_FINDINGS.txt"), "w", encoding="utf-8").write("\n".join(out) + "\n")
print("KNOWN_FINDINGS.txt rebuilt: %d known, %d fixed" % (sum(1 for l in out if l.startswith("known:")), sum(1 for l in out if l.startswith("fixed:"))))

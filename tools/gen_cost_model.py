#!/usr/bin/env python3
"""gen_cost_model.py — regenerate coq/model/CodecDecCost.v (the token decoder of coq/model/CodecDec.v with a
step counter) and coq/proofs/CodecDecCostUnfold.v (one-level unfolding equations) from the text of
coq/model/CodecDec.v.  Purely textual: same arms, same order; obind on a counted call -> cbind, on anything
else -> pbind; Ok / Err leaves -> Ok' / Err'; every `| S f =>` of the recursive functions is wrapped in tick.
proofs/CodecDecCostProofs.v proves fst (X_c ..) = X .. for every function, so a CodecDec.v that has moved
on breaks that proof until this script is run again:   python3 tools/gen_cost_model.py"""
import os, re
HERE = os.path.dirname(os.path.dirname(os.path.abspath(__file__)))
src_text = open(os.path.join(HERE, 'coq/model/CodecDec.v')).read()
src = src_text.split('\n')

def grab(start_pat, end_pat):
    i = next(k for k, l in enumerate(src) if start_pat in l)
    j = next(k for k, l in enumerate(src) if end_pat in l and k > i)
    return '\n'.join(src[i:j])

txt = '\n\n'.join([grab('  Fixpoint any_body', '  (* one member value'),
                   grab('  Definition member_with', '  (* foundKeys[0] *)'),
                   grab('  Fixpoint decode_present', '  (* Codec.decodeRoot on a fresh message *)')]) \
      + '\n' + grab('  Definition decode_tokens_rest', 'End Decode.')
names = ['any_body', 'member_with', 'decode_present', 'object_body', 'oneof_body', 'array_items', 'map_items', 'decode_tokens_rest']
for n in names:
    txt = re.sub(r'\b' + n + r'\b', n + '_c', txt)
for n in names:
    txt = txt.replace('obind (' + n + '_c', 'cbind (' + n + '_c')
txt = txt.replace('obind (', 'pbind (')
txt = re.sub(r'(?<!pbind \()with_holder ', 'with_holder_c ', txt)
txt = txt.replace('Err "', "Err' \"").replace('Ok (', "Ok' (")
txt = txt.replace('| O => OutOfFuel', '| O => (OutOfFuel, 1%nat)')
txt = re.sub(r'\| S f =>\n', '| S f => tick (\n', txt)
for a, b in [(': outcome (option (list token) * option bytes * list token)', ': cout (option (list token) * option bytes * list token)'),
             (': outcome (msg * list token * list bytes)', ': cout (msg * list token * list bytes)'),
             (': outcome (msg * list token)', ': cout (msg * list token)'),
             (': outcome (list pval * list token)', ': cout (list pval * list token)'),
             (': outcome (list (bytes * pval) * list token)', ': cout (list (bytes * pval) * list token)'),
             ('(dp : list token -> msg -> outcome (msg * list token))', '(dp : list token -> msg -> cout (msg * list token))'),
             ('pbind (dp ts m)', 'cbind (dp ts m)'),
             # continuations of the un-counted with_holder stay plain outcomes
             ("| None => Ok' (msg_del n h, tt)", "| None => Ok (msg_del n h, tt)"),
             ("| Some x => Ok' (msg_set (p_explicit p) (p_siblings p) n x h, tt)", "| Some x => Ok (msg_set (p_explicit p) (p_siblings p) n x h, tt)"),
             ("Ok' (msg_set (p_explicit p) (p_siblings p) n (VEnum z) h, tt)", "Ok (msg_set (p_explicit p) (p_siblings p) n (VEnum z) h, tt)")]:
    txt = txt.replace(a, b)
out, open_tick = [], False
for l in txt.split('\n'):
    if l.rstrip().endswith('| S f => tick ('):
        open_tick = True
    if open_tick and l.rstrip() in ('    end', '    end.'):
        out[-1] += ')'
        open_tick = False
    out.append(l)
body = '\n'.join(out)

HDR = open(os.path.join(HERE, 'tools/cost_model_header.v.txt')).read()
FTR = '''
End DecodeCost.

(* JSONToProto with the counter *)
Definition decode_document_c (orc : oracles) (e : env) (root : bytes) (bs : bytes) : cout msg :=
  let '(ts, more_at_end) := lex bs in
  cbind (decode_tokens_rest_c orc e more_at_end (S (length ts)) root ts) (fun mr =>
    pbind (end_of_input (snd mr) (lex_at_eof bs)) (fun _ => Ok' (fst mr))).
'''
open(os.path.join(HERE, 'coq/model/CodecDecCost.v'), 'w').write(HDR + body + FTR)

# ---- unfolding equations
UH = '''(* CodecDecCostUnfold.v — GENERATED (tools/gen_cost_model.py): one-level unfolding equations of the
   recursive functions of model/CodecDec.v and of their instrumented copies (model/CodecDecCost.v), each
   proved by reflexivity, so that proofs rewrite one level without exposing the mutual fixpoint. *)
From Coq Require Import String List NArith ZArith Bool.
From J5V.lib Require Import Outcome Json.
From J5V.model Require Import CodecTypes CodecDecScalar CodecDec CodecDecCost.
Import ListNotations.
Local Open Scope N_scope.
Local Open Scope bool_scope.

Section Unfold.
  Variable orc : oracles.
  Variable e : env.
  Variable more_at_end : bool.
  Notation has_more := (has_more more_at_end).
  Notation any_body_c := (CodecDecCost.any_body_c more_at_end).
  Notation member_with_c := (CodecDecCost.member_with_c).
  Notation decode_present_c := (CodecDecCost.decode_present_c orc e more_at_end).
  Notation object_body_c := (CodecDecCost.object_body_c orc e more_at_end).
  Notation oneof_body_c := (CodecDecCost.oneof_body_c orc e more_at_end).
  Notation array_items_c := (CodecDecCost.array_items_c orc e more_at_end).
  Notation map_items_c := (CodecDecCost.map_items_c orc e more_at_end).
  Notation any_body := (CodecDec.any_body more_at_end).
  Notation decode_present := (CodecDec.decode_present orc e more_at_end).
  Notation object_body := (CodecDec.object_body orc e more_at_end).
  Notation oneof_body := (CodecDec.oneof_body orc e more_at_end).
  Notation array_items := (CodecDec.array_items orc e more_at_end).
  Notation map_items := (CodecDec.map_items orc e more_at_end).

'''
def lemmas(text, start, end, ret, o_case, wrap):
    sec = text[text.index(start):text.index(end)]
    pat = re.compile(r'(?:Fixpoint|with) (\w+) \(fuel : nat\)(.*?)\{struct fuel\}\s*\n?\s*: (' + ret + r' \([^\n]*\)) :=\s*\n\s*match fuel with\s*\n\s*\| O => '
                     + o_case + r'\s*\n\s*\| S f =>' + (r' tick \(' if wrap else '') + r'\n(.*?)' + (r'\)' if wrap else '') + r'\n    end', re.S)
    res = ''
    for m in pat.finditer(sec):
        name, args, body = m.group(1), ' '.join(m.group(2).split()), m.group(4)
        flat = ' '.join(re.findall(r'\(([\w ]+?) :', args))
        res += '  Lemma %s_S (f : nat) %s :\n    %s (S f) %s = %s(\n%s).\n  Proof. reflexivity. Qed.\n\n' % (name, args, name, flat, 'tick ' if wrap else '', body)
    return res
cost_text = HDR + body + FTR
u = UH + lemmas(cost_text, '  Fixpoint decode_present_c', 'End DecodeCost.', 'cout', r'\(OutOfFuel, 1%nat\)', True) \
       + lemmas(src_text, '  Fixpoint decode_present ', '  (* Codec.decodeRoot on a fresh message *)', 'outcome', 'OutOfFuel', False) + 'End Unfold.\n'
open(os.path.join(HERE, 'coq/proofs/CodecDecCostUnfold.v'), 'w').write(u)
print('written: coq/model/CodecDecCost.v, coq/proofs/CodecDecCostUnfold.v')

#!/usr/bin/env python3
"""Debug helper for the C02/C13 correspondence: evaluates the model on case POS of a shard
file and prints model output and observed output with byte lists decoded as strings.
usage: cmpa_debug.py <cases_k.v> <pos>"""
import re, subprocess, sys, os, tempfile
shard, pos = sys.argv[1], int(sys.argv[2])
src = open(shard).read()
head, rest = src.split("Definition cases", 1)
body = rest.split(":= [", 1)[1].rsplit("\n].", 1)[0]
# split top-level cases on ";\n  CCompile" / CEdit
parts = re.split(r";\n  (?=C(?:CompileV|Compile|Edit)\b)", body.strip())
case = parts[pos].strip()
coq = os.path.join(os.path.dirname(os.path.abspath(__file__)), "..", "coq")
v = head + "\nFrom J5V.lib Require Import Outcome Corr.\nImport ListNotations.\nLocal Open Scope N_scope.\n"
v += "Definition the_case := (%s).\n" % case
if case.startswith("CEdit"):
    v += """Definition model_out := match the_case with CEdit bd es bd' pkg ok ok' okall okall' embeds files files' => (compile bd pkg, compile bd' pkg, compile (apply_edits bd es) pkg, valid bd, valid (apply_edits bd es)) end.
Definition real_out := match the_case with CEdit bd es bd' pkg ok ok' okall okall' embeds files files' => (ok, ok', okall, okall', files, files') end.
"""
else:
    v += """Definition model_out := match the_case with CCompile bd pkg ok files => (compile bd pkg, valid bd) | CCompileV bd pkg ok okall exact files => (compile bd pkg, valid bd) end.
Definition real_out := match the_case with CCompile bd pkg ok files => (ok, ok, files) | CCompileV bd pkg ok okall exact files => (ok, okall, files) end.
"""
v += """Eval vm_compute in model_out.
Eval vm_compute in real_out.
"""
d = tempfile.mkdtemp()
p = os.path.join(d, "dbg.v")
open(p, "w").write(v)
args = ["coqc"]
for x in ["lib", "gen", "model", "proofs", "props"]:
    args += ["-Q", os.path.join(coq, x), "J5V." + x]
out = subprocess.run(args + [p], capture_output=True, text=True)
txt = out.stdout + out.stderr
def dec(m):
    nums = [int(x) for x in re.findall(r"\d+", m.group(0))]
    if all(9 <= n < 127 for n in nums):
        return '"' + "".join(chr(n) for n in nums) + '"'
    return m.group(0)
txt = re.sub(r"\[\s*\d+(?:\s*;\s*\d+)*\s*\]", dec, txt)
txt = re.sub(r"\s*\n\s*", " ", txt)
txt = txt.replace("{| ", "\n{| ").replace("DMsg", "\n  DMsg")
print(txt)

#!/usr/bin/env python3
"""keep_mut.py OUTDIR ID  — store a confirmed seeded change under /verif/seeded/<ID>/ (patch.diff, demonstration, meta.json)."""
import json, os, shutil, subprocess, sys
out, sid = sys.argv[1], sys.argv[2]
dst = os.path.join(os.path.dirname(os.path.dirname(os.path.abspath(__file__))), "seeded", sid)
os.makedirs(dst, exist_ok=True)
shutil.copy(os.path.join(out, "patch.diff"), dst)
for f in ("demo_test.go",):
    if os.path.exists(os.path.join(out, f)):
        shutil.copy(os.path.join(out, f), dst)
if os.path.isdir(os.path.join(out, "demo")):
    shutil.copytree(os.path.join(out, "demo"), os.path.join(dst, "demo"), dirs_exist_ok=True)
meta = json.load(open(os.path.join(out, "meta.json")))
head = subprocess.run(["git", "-C", "/repo", "rev-parse", "HEAD"], capture_output=True, text=True).stdout.strip()
meta.update({"id": sid, "confirmed_against_repo_commit": head,
             "what_was_run": "tools/confirm_mut.sh: fresh scratch worktree of /repo HEAD; demonstration passes on HEAD; git apply patch.diff; go build ./...; "
                             "go test -vet=off -count=1 ./... (whole suite passes); demonstration fails with the patch; worktree removed",
             "origin": "independent sub-agent given only the property record and a scratch worktree"})
json.dump(meta, open(os.path.join(dst, "meta.json"), "w"), indent=1)
print("kept", dst)

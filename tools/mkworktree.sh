#!/bin/sh
# mkworktree.sh NAME — builder worktree /work/NAME on branch NAME (from main), pre-seeded with /verif's compiled
# Coq objects and harness binaries (mtimes preserved, so `make` is a no-op until a source changes).
set -e
N="$1"; [ -n "$N" ] || { echo "usage: $0 NAME"; exit 2; }
mkdir -p /work
if git -C /verif show-ref --verify --quiet refs/heads/$N; then git -C /verif worktree add -f /work/$N $N >/dev/null
else git -C /verif worktree add -f -b $N /work/$N main >/dev/null; fi
rsync -a /verif/coq/ /work/$N/coq/
mkdir -p /work/$N/.build
rsync -a /verif/.build/bin /verif/.build/gencache /work/$N/.build/ 2>/dev/null || true
cp /repo/go.sum /work/$N/harness/go.sum
echo "worktree /work/$N ready (branch $N)"

#!/bin/bash
# strip_tests_from_fixes.sh BASE — rewrite /repo's commits BASE..main so that no `fix:` commit touches a *_test.go file
# (verif-hook commits are kept as they are). Writes the old->new id map to /verif/.build/repo-id-map.txt. /repo must be clean and frozen.
set -e
BASE="$1"; [ -n "$BASE" ] || { echo "usage: $0 BASE"; exit 2; }
cd /repo; [ -z "$(git status --porcelain)" ] || { echo "/repo not clean"; exit 1; }
OLD=$(git rev-parse main); git branch -f backup-before-strip $OLD
W=/tmp/rw-strip; git worktree remove --force $W 2>/dev/null || true; git branch -D r3rewrite 2>/dev/null || true
git worktree add -q -b r3rewrite $W $BASE
mkdir -p /verif/.build; : > /verif/.build/repo-id-map.txt
for c in $(git rev-list --reverse $BASE..$OLD); do
  subj=$(git log -1 --format=%s $c)
  ( cd $W; git cherry-pick -n $c >/dev/null
    case "$subj" in fix:*)
      for f in $(git diff --cached --name-only | grep '_test\.go$' || true); do
        if git cat-file -e HEAD:"$f" 2>/dev/null; then git reset -q HEAD -- "$f"; git checkout -- "$f"; else git rm -q -f --cached "$f"; rm -f "$f"; fi
      done;; esac
    if git diff --cached --quiet; then echo "EMPTY after strip: $c $subj"; else git commit -q -C $c; fi )
  echo "$(git rev-parse --short $c) $(git -C $W rev-parse --short HEAD) $subj" | cut -c1-160 >> /verif/.build/repo-id-map.txt
done
cd $W; export GOFLAGS=-mod=mod GOPROXY=off
go build ./... && go build -tags verif ./... && go test -vet=off -count=1 ./... 2>&1 | grep -v '^ok\|no test files' | head -20
echo "rewritten head: $(git rev-parse --short HEAD); diff vs old main outside tests:"; git diff --stat $OLD HEAD -- . ':(exclude)*_test.go' | tail -3
echo "now: git -C /repo reset --hard r3rewrite (after checking the above), then git -C /repo worktree remove --force $W"

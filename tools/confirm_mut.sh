#!/bin/bash
# confirm_mut.sh OUTDIR  — OUTDIR holds patch.diff, demo (demo_test.go with a "place in <dir>" comment, or demo/main.go), meta.json
# Confirms in a fresh scratch worktree of /repo HEAD: patch applies, builds, full suite passes, demo fails with / passes without.
set -u
O="$1"; W=$(mktemp -d /tmp/confirm-XXXX); export GOFLAGS=-mod=mod GOPROXY=off
git -C /repo worktree add --detach -f "$W/r" HEAD >/dev/null 2>&1
cd "$W/r"
res() { echo "RESULT $O: $*"; cd /; git -C /repo worktree remove --force "$W/r" >/dev/null 2>&1; rm -rf "$W"; }
place() { # copy demo into place, echo the go test command dir
  if [ -f "$O/demo_test.go" ]; then
    d=$(grep -m1 -oE '(internal|lib|cmd|j5types)/[A-Za-z0-9_/]+' "$O/demo_test.go" | head -1)
    [ -d "$d" ] || { echo "NODIR:$d"; return 1; }
    cp "$O/demo_test.go" "$d/zz_demo_test.go"; echo "$d"
  else
    mkdir -p zzdemo && cp "$O/demo/main.go" zzdemo/main.go; echo "MAIN"
  fi
}
rundemo() { d=$(place) || { echo "place failed $d"; return 2; }
  if [ "$d" = MAIN ]; then timeout 600 go run ./zzdemo >$W/demo.out 2>&1; rc=$?; rm -rf zzdemo
  else timeout 600 go test -vet=off -count=1 -run "Demo|C1[0-9]|C0[0-9]" "./$d/" >$W/demo.out 2>&1; rc=$?; rm -f "$d/zz_demo_test.go"; fi
  return $rc; }
rundemo; base=$?
git apply --check "$O/patch.diff" 2>$W/apply.err || { res "PATCH-DOES-NOT-APPLY $(head -2 $W/apply.err)"; exit 1; }
git apply "$O/patch.diff"
go build ./... >$W/build.out 2>&1 || { res "BUILD-FAILS"; exit 1; }
timeout 900 go test -vet=off -count=1 ./... >$W/suite.out 2>&1; suite=$?
rundemo; mut=$?
res "baseline_demo_rc=$base suite_rc_with_patch=$suite demo_rc_with_patch=$mut  => $([ $base = 0 ] && [ $suite = 0 ] && [ $mut != 0 ] && echo CONFIRMED || echo NOT-CONFIRMED)"

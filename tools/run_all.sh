#!/bin/bash
# run_all.sh [tier] [props...] — run every registered check sequentially, print one line per property.
cd "$(dirname "$0")/.."; T="${1:-quick}"; shift
PROPS="$@"; [ -n "$PROPS" ] || PROPS=$(python3 -c "import json;print(' '.join(c['property_id'] for c in json.load(open('MANIFEST.json'))['checks']))")
mkdir -p .build/logs
for p in $PROPS; do s=$(date +%s); ./check $p $T > .build/logs/$p-$T.log 2>&1; rc=$?; e=$(( $(date +%s)-s ))
  echo "$p rc=$rc ${e}s $(grep -cE '^KNOWN-FINDING' .build/logs/$p-$T.log) known; $(grep -E '^VIOLATION' .build/logs/$p-$T.log | head -1) $(tail -1 .build/logs/$p-$T.log | cut -c1-160)"; done
